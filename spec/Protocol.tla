------------------------------ MODULE Protocol ------------------------------
(***************************************************************************)
(* C06 -- "Every control request gets exactly one well-formed reply        *)
(* bearing its id".                                                        *)
(*                                                                         *)
(* Part D (daemon): circus/controller.py handle_message -> dispatch ->     *)
(* _dispatch_callback(_future) -> send_response as a pipeline over MESSAGE *)
(* CLASSES.  A class fixes what the pipeline can look at: the shape of the *)
(* bytes, the kinds of id / command / msg_type / properties, the kind of   *)
(* the command, and what the operation does (validate raises, execute      *)
(* raises, returns a value, returns a future that succeeds or fails, the   *)
(* request waits or not).  The pipeline is the function DStep on a state   *)
(* record; TLC explores it from one initial state per class (exhaustive    *)
(* product), checks the invariants below, and writes every class with what *)
(* the PROPERTY demands and what the CODE AS IT IS answers to OUT_FILE.    *)
(*                                                                         *)
(* Part C (client): CircusClient.call / AsyncCircusClient.call over a      *)
(* channel that reorders, duplicates and delays: every sequence of up to   *)
(* MaxFrames incoming frames of kinds own / stale / foreign / dup /        *)
(* garbage, each after a short, medium or long delay (timeout T = 10).     *)
(*                                                                         *)
(* Deviations of the code from the statement are named branches guarded by *)
(* Dev_ constants (TRUE = as the code behaves).  With every Dev_ FALSE the *)
(* model satisfies the statement everywhere (Protocol_fixed.cfg); with     *)
(* TRUE every miss carries the signature of exactly the listed findings    *)
(* (Inv_D_Explained / Inv_C_Explained).                                    *)
(***************************************************************************)
EXTENDS Naturals, Sequences, FiniteSets, TLC, Json, IOUtils, SequencesExt

CONSTANTS
    Dev_EmptyNoReply,       \* D5: b"" / whitespace -> send_response(str) raises DeprecationWarning: no reply
    Dev_NonObjectNoReply,   \* D5: JSON scalar / array -> json_msg.get AttributeError outside the try: no reply
    Dev_NoCommandNoReply,   \* D5: command absent / null / not a string -> cmd_name.lower() AttributeError: no reply
    Dev_WaitFailNoReply,    \* D5: waiting request on a TransformableFuture whose operation fails:
                            \*     _internal_callback re-raises future.result(): the reply callback never runs
    Dev_DeepNoReply,        \* D5R: json.loads raises RecursionError (not a ValueError) on deep nesting: no reply
    Dev_StatusOverwrite,    \* STATUS: ok(props) lets a result key "status" overwrite the reply's status
    Dev_NonfiniteEcho,      \* NANID: an id that Python reads as NaN/Infinity is echoed as NaN/Infinity: not JSON
    Dev_QuitWaitLost,       \* QUITW: quit+waiting on a provided loop answers after the stream is closed: lost
    Dev_GarbageAborts,      \* client: an undecodable frame aborts the call with CallError(<json error>)
    Dev_AsyncNoTimeout,     \* D12: AsyncCircusClient.call never times out
    MaxFrames,              \* client half: longest delivery sequence
    Part                    \* "daemon" | "client" : which half this TLC run explores

-----------------------------------------------------------------------------
(***************************************************************************)
(*                         PART D : THE DAEMON                             *)
(***************************************************************************)

\* the registered commands (circus/commands/*.py): kind and whether `properties` (required names) is non-empty.
\* ro = never returns a future; sync = state-changing, never a future; async = may return a future;
\* quit = ends this daemon life (`quit`; also `restart` without a name, which is Arbiter.stop plus the
\* _restarting flag: the harness files such a request under kind "quit").  The harness cross-checks this
\* table against Controller.commands.
Commands == [
    add           |-> [kind |-> "async", req |-> "t"],   \* future only with start:true
    decr          |-> [kind |-> "async", req |-> "t"],
    dstats        |-> [kind |-> "ro",    req |-> "f"],
    get           |-> [kind |-> "ro",    req |-> "t"],
    globaloptions |-> [kind |-> "ro",    req |-> "f"],
    incr          |-> [kind |-> "async", req |-> "t"],
    ipython       |-> [kind |-> "ro",    req |-> "f"],
    kill          |-> [kind |-> "async", req |-> "t"],
    list          |-> [kind |-> "ro",    req |-> "f"],
    listen        |-> [kind |-> "ro",    req |-> "f"],
    listsockets   |-> [kind |-> "ro",    req |-> "f"],
    numprocesses  |-> [kind |-> "ro",    req |-> "f"],
    numwatchers   |-> [kind |-> "ro",    req |-> "f"],
    options       |-> [kind |-> "ro",    req |-> "t"],
    quit          |-> [kind |-> "quit",  req |-> "f"],
    reload        |-> [kind |-> "async", req |-> "f"],
    reloadconfig  |-> [kind |-> "async", req |-> "f"],
    restart       |-> [kind |-> "async", req |-> "f"],
    rm            |-> [kind |-> "async", req |-> "t"],
    set           |-> [kind |-> "async", req |-> "t"],
    signal        |-> [kind |-> "sync",  req |-> "t"],
    start         |-> [kind |-> "async", req |-> "f"],
    stats         |-> [kind |-> "ro",    req |-> "f"],
    status        |-> [kind |-> "ro",    req |-> "f"],
    stop          |-> [kind |-> "async", req |-> "f"],
    \* two scripted plug-in commands the harness registers in Controller.commands (any outcome on demand)
    c06x          |-> [kind |-> "stub",  req |-> "f"],
    c06r          |-> [kind |-> "stub",  req |-> "t"] ]

KindReq == { <<Commands[c].kind, Commands[c].req>> : c \in DOMAIN Commands }

Frames   == {"empty", "badjson", "deep", "null", "bool", "number", "string", "array", "object"}
IdKinds  == {"absent", "null", "string", "number", "bool", "array", "object", "nonfinite"}
CmdKinds == {"absent", "null", "nonstring", "unknown", "known", "knowncase"}
MsgTypes == {"absent", "cast", "other"}
Excs     == {"message", "conflict", "os", "other"}
Results  == {"none", "dict", "dict_status", "list", "other"}

NoOp == [ph |-> "na", x |-> "na", w |-> "na"]

\* what the operation behind a known command can do, given the kind of command and of `properties`
Ops(kind, req, props) ==
    LET ws  == CASE props = "nonobject" -> {"unreadable"}         \* properties.get raises
                 [] props = "absent" -> {"no"}                    \* properties defaults to {}
                 [] OTHER -> {"no", "yes"}
        val == { [ph |-> "validate", x |-> e, w |-> "na"] : e \in Excs }
        exe == { [ph |-> "execute", x |-> e, w |-> "na"] : e \in Excs }
        syn == { [ph |-> "sync", x |-> r, w |-> "na"] :
                     \* a result with a "status" key: `status` with a name (needs readable properties)
                     r \in (IF kind = "ro" /\ props \in {"valid", "illtyped"} THEN Results
                            ELSE Results \ {"dict_status"}) }
        fut == { [ph |-> "future", x |-> r, w |-> w] :
                     r \in ((Results \ {"dict_status"}) \cup {"fail"}), w \in ws }
        tfu == { [ph |-> "tfuture", x |-> r, w |-> w] : r \in {"dict", "fail"}, w \in ws }
        refused == props = "missing" \/ (props = "absent" /\ req = "t")
    IN  IF refused THEN { [ph |-> "validate", x |-> "message", w |-> "na"] }      \* Command.validate
        ELSE CASE kind \in {"ro", "sync"} -> (IF req = "t" THEN val ELSE {}) \cup exe \cup syn
               [] kind = "async" -> (IF req = "t" THEN val ELSE {}) \cup exe \cup syn \cup fut
                                    \cup (IF props = "nonobject" THEN {} ELSE tfu)
               [] kind = "quit"  -> exe \cup { o \in fut : o.x \in {"none", "fail"} }
               [] kind = "stub"  -> val \cup exe \cup syn \cup fut \cup tfu

PropsOf(cmd, req) ==
    IF cmd \in {"known", "knowncase"}
    THEN {"absent", "nonobject", "valid", "illtyped"} \cup (IF req = "t" THEN {"missing"} ELSE {})
    ELSE {"absent", "nonobject", "object"}

AllOps == {NoOp} \cup { [ph |-> p, x |-> x, w |-> w] :
                             p \in {"validate", "execute", "sync", "future", "tfuture"},
                             x \in Excs \cup Results \cup {"fail"}, w \in {"na", "no", "yes", "unreadable"} }

\* (a filtered record set, not a UNION of many small sets: TLC's UNION is quadratic)
DClasses ==
    { [frame |-> f, id |-> "na", cmd |-> "na", mt |-> "na", props |-> "na", kind |-> "na", req |-> "na",
       op |-> NoOp] : f \in Frames \ {"object"} }
    \cup
    { [frame |-> "object", id |-> i, cmd |-> c, mt |-> t, props |-> p, kind |-> "na", req |-> "na", op |-> NoOp] :
          i \in IdKinds, c \in CmdKinds \ {"known", "knowncase"}, t \in MsgTypes, p \in PropsOf("unknown", "na") }
    \cup
    { m \in [frame : {"object"}, id : IdKinds, cmd : {"known", "knowncase"}, mt : MsgTypes,
             props : PropsOf("known", "t"), kind : {"ro", "sync", "async", "quit", "stub"}, req : {"t", "f"},
             op : AllOps] :
          /\ <<m.kind, m.req>> \in KindReq
          /\ m.props \in PropsOf("known", m.req)
          /\ m.op \in Ops(m.kind, m.req, m.props) }

Cast(m) == m.frame = "object" /\ m.mt = "cast"
QuitRuns(m) == m.kind = "quit" /\ m.op.ph = "future"          \* arbiter.stop() was started

Errno(e) == CASE e = "message" -> 3 [] e = "conflict" -> 5 [] e = "os" -> 4 [] OTHER -> 5

\* ---- the pipeline: state = [pc, m, replies, escaped, serving]
DInit(m) == [pc |-> "strip", m |-> m, replies |-> <<>>, escaped |-> FALSE, serving |-> TRUE]

\* Controller.send_response: nothing for cast; resp['id'] = mid; json.dumps
Send(s, idk, st, errno) ==
    IF Cast(s.m) THEN s
    ELSE [s EXCEPT !.replies = Append(@, [id |-> idk, st |-> st, errno |-> errno,
                                           wf |-> ~(Dev_NonfiniteEcho /\ idk = "echo" /\ s.m.id = "nonfinite")])]

Done(s)   == [s EXCEPT !.pc = "done"]
Escape(s) == [s EXCEPT !.pc = "done", !.escaped = TRUE]       \* an exception leaves handle_message / a callback

\* Controller._dispatch_callback(resp): None -> ok(); non dict/list -> "server error"; list -> {"results": ..}
Answer(s, r) ==
    CASE r \in {"none", "dict", "list"} -> Send(s, "echo", "ok", 0)
      [] r = "dict_status" -> Send(s, "echo", IF Dev_StatusOverwrite THEN "other" ELSE "ok", 0)
      [] r = "other" -> Send(s, "echo", "error", 6)

DStep(s) ==
    LET m == s.m IN
    CASE s.pc = "strip" ->                                     \* handle_message: msg.strip(); if not msg
           IF m.frame = "empty"
           THEN (IF Dev_EmptyNoReply THEN Escape(s) ELSE Done(Send(s, "null", "error", 1)))
           ELSE [s EXCEPT !.pc = "parse"]
      [] s.pc = "parse" ->                                     \* dispatch: json.loads / except ValueError
           CASE m.frame = "badjson" -> Done(Send(s, "null", "error", 1))
             [] m.frame = "deep" -> (IF Dev_DeepNoReply THEN Escape(s) ELSE Done(Send(s, "null", "error", 1)))
             [] OTHER -> [s EXCEPT !.pc = "fields"]
      [] s.pc = "fields" ->                                    \* json_msg.get('id') ... ; cmd_name.lower()
           CASE m.frame # "object" ->
                  (IF Dev_NonObjectNoReply THEN Escape(s) ELSE Done(Send(s, "null", "error", 1)))
             [] m.cmd \in {"absent", "null", "nonstring"} ->
                  (IF Dev_NoCommandNoReply THEN Escape(s) ELSE Done(Send(s, "echo", "error", 2)))
             [] OTHER -> [s EXCEPT !.pc = "lookup"]
      [] s.pc = "lookup" ->                                    \* self.commands[cmd_name.lower()] / KeyError
           IF m.cmd = "unknown" THEN Done(Send(s, "echo", "error", 2)) ELSE [s EXCEPT !.pc = "validate"]
      [] s.pc = "validate" ->                                  \* cmd.validate(properties)
           IF m.op.ph = "validate" THEN Done(Send(s, "echo", "error", Errno(m.op.x)))
           ELSE [s EXCEPT !.pc = "execute"]
      [] s.pc = "execute" ->                                   \* resp = cmd.execute(arbiter, properties)
           CASE m.op.ph = "execute" -> Done(Send(s, "echo", "error", Errno(m.op.x)))
             [] m.op.ph = "sync" -> Done(Answer(s, m.op.x))
             [] OTHER ->                                       \* a Future: properties.get('waiting', False)
                  LET t == [s EXCEPT !.serving = ~QuitRuns(m)] IN
                  CASE m.op.w = "unreadable" -> Done(Send(t, "echo", "error", 5))   \* AttributeError in the try
                    [] m.op.w = "no" -> [Send(t, "echo", "ok", 0) EXCEPT !.pc = "complete"]   \* immediate ok
                    [] OTHER -> [t EXCEPT !.pc = "complete"]
      [] s.pc = "complete" ->                                  \* the operation's future is done
           CASE m.op.ph = "tfuture" /\ m.op.x = "fail" ->      \* TransformableFuture._internal_callback
                  (IF Dev_WaitFailNoReply \/ m.op.w = "no" THEN Escape(s)
                   ELSE Done(Send(s, "echo", "error", 6)))
             [] m.op.w = "no" -> Done(s)                       \* _dispatch_callback_future(send_resp=False)
             [] m.kind = "quit" /\ m.op.x # "fail" /\ Dev_QuitWaitLost -> Done(s)   \* stream already closed
             [] m.op.x = "fail" -> Done(Send(s, "echo", "error", 6))
             [] OTHER -> Done(Answer(s, m.op.x))
      [] OTHER -> s

RECURSIVE DRun(_)
DRun(s) == IF s.pc = "done" THEN s ELSE DRun(DStep(s))

\* ---- what the statement demands of a class
Demanded(m) == [n |-> IF Cast(m) THEN 0 ELSE 1,
                id |-> IF m.frame = "object" THEN "echo" ELSE "null",
                serve |-> ~QuitRuns(m)]

ReplyOK(m, r) == /\ r.wf
                 /\ r.st \in {"ok", "error"}
                 /\ (r.id = Demanded(m).id \/ m.id = "nonfinite")    \* an id that JSON cannot carry: any id will do

Satisfies(m, s) == /\ Len(s.replies) = Demanded(m).n
                   /\ \A i \in 1..Len(s.replies) : ReplyOK(m, s.replies[i])
                   /\ s.serving = Demanded(m).serve

\* ---- signatures of the findings, by class (narrow: nothing else may explain a miss)
KF_D5(m)     == ~Cast(m) /\ \/ m.frame = "empty"
                            \/ m.frame \in {"null", "bool", "number", "string", "array"}
                            \/ m.frame = "object" /\ m.cmd \in {"absent", "null", "nonstring"}
                            \/ m.op.ph = "tfuture" /\ m.op.x = "fail" /\ m.op.w = "yes"
KF_D5R(m)    == m.frame = "deep"
KF_STATUS(m) == ~Cast(m) /\ m.kind = "ro" /\ m.op.x = "dict_status"
KF_NANID(m)  == ~Cast(m) /\ m.frame = "object" /\ m.id = "nonfinite"
KF_QUITW(m)  == ~Cast(m) /\ m.kind = "quit" /\ m.op.ph = "future" /\ m.op.w = "yes" /\ m.op.x # "fail"

Findings(m) == (IF KF_D5(m) THEN {"D5"} ELSE {}) \cup (IF KF_D5R(m) THEN {"D5R"} ELSE {})
               \cup (IF KF_STATUS(m) THEN {"STATUS"} ELSE {}) \cup (IF KF_NANID(m) THEN {"NANID"} ELSE {})
               \cup (IF KF_QUITW(m) THEN {"QUITW"} ELSE {})

\* which conjunct of the statement a finding may break
Explained(m, s) ==
    LET countOK == Len(s.replies) = Demanded(m).n
        missing == Len(s.replies) = 0 /\ Demanded(m).n = 1
        formOK(r) == (r.wf \/ KF_NANID(m)) /\ (r.st \in {"ok", "error"} \/ (KF_STATUS(m) /\ r.st = "other"))
                     /\ (r.id = Demanded(m).id \/ m.id = "nonfinite")
    IN  /\ (countOK \/ (missing /\ (KF_D5(m) \/ KF_D5R(m) \/ KF_QUITW(m))))
        /\ \A i \in 1..Len(s.replies) : formOK(s.replies[i])
        /\ s.serving = Demanded(m).serve

DCase(m) == LET f == DRun(DInit(m)) IN
            [cls |-> m, dem |-> Demanded(m), cod |-> [n |-> Len(f.replies), replies |-> f.replies,
                                                       escaped |-> f.escaped, serve |-> f.serving],
             ok |-> Satisfies(m, f), kf |-> IF Satisfies(m, f) THEN {} ELSE Findings(m)]

-----------------------------------------------------------------------------
(***************************************************************************)
(*                         PART C : THE CLIENT                             *)
(***************************************************************************)
T == 10                                              \* the client's timeout, in model ticks
Dur(d) == CASE d = "short" -> 1 [] d = "medium" -> 6 [] d = "long" -> 15
FrameKinds == {"own", "stale", "foreign", "dup", "garbage"}
Delays     == {"short", "medium", "long"}
FrameSet   == { [k |-> k, d |-> d] : k \in FrameKinds, d \in Delays }

RECURSIVE SeqsUpTo(_)
SeqsUpTo(n) == IF n = 0 THEN { <<>> }
               ELSE LET prev == SeqsUpTo(n - 1) IN
                    prev \cup { Append(q, f) : q \in { p \in prev : Len(p) = n - 1 }, f \in FrameSet }

CSeqs == SeqsUpTo(MaxFrames)
Mine(f) == f.k \in {"own", "dup"}                    \* bears the call's id

\* ---- the call loop as coded.  state = [pc, q, mode, i, out];  out = <<"own", index>> | <<"timeout">> |
\* <<"callerror">> | <<"hang">>;  mode "sync" = CircusClient.call, "async" = AsyncCircusClient.call
CInit(q, mode) == [pc |-> "poll", q |-> q, mode |-> mode, i |-> 1, out |-> <<"pending">>]

CStep(s) ==
    LET fin(o) == [s EXCEPT !.pc = "done", !.out = o] IN
    CASE s.pc = "poll" ->                             \* poller.poll(self.timeout) / yield future
           IF s.i > Len(s.q)
           THEN (IF s.mode = "async" /\ Dev_AsyncNoTimeout THEN fin(<<"hang">>) ELSE fin(<<"timeout">>))
           ELSE IF Dur(s.q[s.i].d) > T /\ ~(s.mode = "async" /\ Dev_AsyncNoTimeout)
                THEN fin(<<"timeout">>)               \* per-poll timeout: nothing arrived within T
                ELSE [s EXCEPT !.pc = "recv"]
      [] s.pc = "recv" ->                             \* json.loads(msg); res.get('id') != call_id -> continue
           LET f == s.q[s.i] IN
           CASE f.k = "garbage" -> (IF Dev_GarbageAborts THEN fin(<<"callerror">>)
                                    ELSE [s EXCEPT !.pc = "poll", !.i = @ + 1])
             [] Mine(f) -> fin(<<"own", s.i>>)
             [] OTHER -> [s EXCEPT !.pc = "poll", !.i = @ + 1]
      [] OTHER -> s

RECURSIVE CRun(_)
CRun(s) == IF s.pc = "done" THEN s ELSE CRun(CStep(s))

\* ---- what the statement demands.  "reports a timeout otherwise" does not say whether the timeout bounds the
\* whole call or each wait, and says nothing about undecodable frames: every reading is accepted.
RECURSIVE Arrival(_, _)
Arrival(q, i) == IF i = 0 THEN 0 ELSE Arrival(q, i - 1) + Dur(q[i].d)

FirstMine(q) == LET S == { i \in 1..Len(q) : Mine(q[i]) } IN
                IF S = {} THEN 0 ELSE CHOOSE i \in S : \A j \in S : i <= j

PerCall(q) == LET i == FirstMine(q) IN
              IF i # 0 /\ Arrival(q, i) <= T THEN <<"own", i>> ELSE <<"timeout">>
PerPoll(q) == LET i == FirstMine(q) IN
              IF i # 0 /\ \A j \in 1..i : Dur(q[j].d) <= T THEN <<"own", i>> ELSE <<"timeout">>
\* an undecodable frame received before the call is decided may end it with a CallError of its own
GarbageSeen(q) == \E g \in 1..Len(q) : /\ q[g].k = "garbage"
                                      /\ \A j \in 1..g : Dur(q[j].d) <= T
                                      /\ (FirstMine(q) = 0 \/ g < FirstMine(q))
CDemanded(q) == {PerCall(q), PerPoll(q)} \cup (IF GarbageSeen(q) THEN {<<"callerror">>} ELSE {})

\* D12: the outcome was reached only by waiting longer than T for some frame (or for ever)
KF_D12(s) == s.mode = "async" /\ (s.out = <<"hang">> \/ \E j \in 1..Len(s.q) : j <= s.i /\ Dur(s.q[j].d) > T)

CCase(q) == LET a == CRun(CInit(q, "sync"))
                b == CRun(CInit(q, "async"))
            IN  [frames |-> q, dem |-> CDemanded(q), sync |-> a.out, async |-> b.out,
                 sync_ok |-> a.out \in CDemanded(q), async_ok |-> b.out \in CDemanded(q),
                 kf |-> IF b.out \in CDemanded(q) THEN {} ELSE (IF KF_D12(b) THEN {"D12"} ELSE {"?"})]

-----------------------------------------------------------------------------
(***************************************************************************)
(* The state machine TLC explores: one behaviour per class / per delivery  *)
(* sequence and mode, stepping the pipeline until "done".                  *)
(***************************************************************************)
VARIABLE st

\* one initial state; the first step picks the class / the delivery sequence and mode (TLC computes successor
\* states in parallel, initial states one by one)
Init == st = [pc |-> "choose"]

Next == \/ /\ st.pc = "choose"
           /\ IF Part = "daemon"
              THEN \E m \in DClasses : st' = DInit(m)
              ELSE \E q \in CSeqs, mode \in {"sync", "async"} : st' = CInit(q, mode)
        \/ /\ st.pc \notin {"choose", "done"}
           /\ st' = IF Part = "daemon" THEN DStep(st) ELSE CStep(st)

Spec == Init /\ [][Next]_st

\* ---- C06 on the daemon: the statement, and the statement modulo the listed findings
Inv_D_Statement == (Part = "daemon" /\ st.pc = "done") => Satisfies(st.m, st)
Inv_D_Explained == (Part = "daemon" /\ st.pc = "done") => (Satisfies(st.m, st) \/ Explained(st.m, st))
\* never two replies, never a reply to a cast, the daemon survives everything but a quit that ran
Inv_D_AtMostOne == (Part = "daemon" /\ st.pc # "choose") => (Len(st.replies) <= 1 /\ (Cast(st.m) => Len(st.replies) = 0)
                                       /\ (st.serving \/ QuitRuns(st.m)))
\* the step function and the closed form agree (the dump below uses DRun)
Inv_D_Run == (Part = "daemon" /\ st.pc = "done") => st = DRun(DInit(st.m))

\* ---- C06 on the client
Inv_C_Statement == (Part = "client" /\ st.pc = "done") => st.out \in CDemanded(st.q)
Inv_C_Explained == (Part = "client" /\ st.pc = "done") => (st.out \in CDemanded(st.q) \/ KF_D12(st))
\* safety half, whatever the Dev_ constants: a returned frame bears the call's id
Inv_C_OnlyMine  == (Part = "client" /\ st.pc = "done" /\ st.out[1] = "own") => Mine(st.q[st.out[2]])
Inv_C_Run == (Part = "client" /\ st.pc = "done") => st = CRun(CInit(st.q, st.mode))

Devs == [EmptyNoReply |-> Dev_EmptyNoReply, NonObjectNoReply |-> Dev_NonObjectNoReply,
         NoCommandNoReply |-> Dev_NoCommandNoReply, WaitFailNoReply |-> Dev_WaitFailNoReply,
         DeepNoReply |-> Dev_DeepNoReply, StatusOverwrite |-> Dev_StatusOverwrite,
         NonfiniteEcho |-> Dev_NonfiniteEcho, QuitWaitLost |-> Dev_QuitWaitLost,
         GarbageAborts |-> Dev_GarbageAborts, AsyncNoTimeout |-> Dev_AsyncNoTimeout]

ASSUME "OUT_FILE" \in DOMAIN IOEnv =>
          IF Part = "daemon"
          THEN JsonSerialize(IOEnv.OUT_FILE, [part |-> "daemon", devs |-> Devs, commands |-> Commands,
                                              cases |-> SetToSeq({ DCase(m) : m \in DClasses })])
          ELSE JsonSerialize(IOEnv.OUT_FILE, [part |-> "client", devs |-> Devs, T |-> T,
                                              dur |-> [short |-> Dur("short"), medium |-> Dur("medium"),
                                                       long |-> Dur("long")],
                                              cases |-> SetToSeq({ CCase(q) : q \in CSeqs })])
=============================================================================

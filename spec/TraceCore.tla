------------------------------ MODULE TraceCore ------------------------------
(***************************************************************************)
(* Strict pass of trace validation: is every behaviour RECORDED FROM THE   *)
(* REAL CODE a behaviour of Core?  Each recorded line must be produced by   *)
(* the Core action it names (environment lines) or by the daemon step that  *)
(* Core takes next (effect lines), with equal fields, and wherever the      *)
(* recorder attached the projected daemon state it must equal the model's.  *)
(* Silent model steps (a callback ending, a timer firing, a resumption)     *)
(* consume no line.  Hidden state (frames, ready queue, timers) is inferred *)
(* by TLC.  Result per trace: the highest line index matched (register      *)
(* tid), printed by the POSTCONDITION; conformance = all lines matched.     *)
(***************************************************************************)
EXTENDS Core, Json, IOUtils, TLCExt

Traces == JsonDeserialize(IOEnv.TRACE_FILE)

VARIABLES tid, l, s
tvars == <<tid, l, s>>

Tr == Traces[tid]

CfgOf(c) == [cd |-> c.cdt, wg |-> c.wgt, obeyset |-> {TRUE, FALSE}, eom |-> c.eom,
             ws |-> [i \in 1..Len(c.ws) |->
                       [n |-> c.ws[i].n, ln |-> c.ws[i].ln, np |-> c.ws[i].np, G |-> c.ws[i].Gp, W |-> c.ws[i].Wt, sing |-> c.ws[i].sing,
                        resp |-> c.ws[i].resp, auto |-> c.ws[i].auto, prio |-> c.ws[i].prio, ssig |-> c.ws[i].ssig,
                        sch |-> c.ws[i].sch, hup |-> c.ws[i].hup, hooks |-> c.ws[i].hooks, retry |-> c.ws[i].retry,
                        ver |-> c.ws[i].ver, od |-> c.ws[i].od, mage |-> c.ws[i].maget]]]

InitState(cfg) ==
  [cfg |-> cfg, now |-> 0, k |-> <<>>,
   ws |-> [i \in 1..Len(cfg.ws) |->
            [st |-> "stopped", rel |-> FALSE, np |-> cfg.ws[i].np, pr |-> <<>>, sing |-> cfg.ws[i].sing, resp |-> cfg.ws[i].resp,
             od |-> ("od" \in DOMAIN cfg.ws[i] /\ cfg.ws[i].od), G |-> cfg.ws[i].G, W |-> cfg.ws[i].W, ssig |-> cfg.ws[i].ssig, sch |-> cfg.ws[i].sch,
             hup |-> cfg.ws[i].hup, mage |-> IF "mage" \in DOMAIN cfg.ws[i] THEN cfg.ws[i].mage ELSE 0]],
   wl |-> [i \in 1..Len(cfg.ws) |-> i], wn |-> <<>>,
   fr |-> [f \in FrameIds |-> NoFrame], cur |-> <<>>, rq |-> <<>>, tm |-> {}, pnext |-> -1, pdue |-> 0,
   slot |-> "", stopping |-> FALSE, restarting |-> FALSE, exited |-> FALSE, creq |-> QuitReq,
   sockev |-> FALSE, sockready |-> FALSE,
   faults |-> <<>>, blocked |-> 0, out |-> NoLine, lastobs |-> <<>>, cbpend |-> FALSE, pjit |-> FALSE, nreq |-> 0,
   booted |-> FALSE]

Init == /\ tid \in 1..Len(Traces)
        /\ l = 1                                   \* line 1 is the "init" line carrying the configuration
        /\ s = WithObs(InitState(CfgOf(Traces[tid][1].cfg)))
        /\ TLCSet(tid, 1)

\* ---- does the model state agree with the projected state the recorder attached to the line?
\* (a death injected in the middle of a callback is recorded at a system-call boundary, where silent
\*  assignments of the running segment are already visible: only the kernel table is compared there)
StateOK(t, ln) ==
  "s" \in DOMAIN ln =>
     LET o == ln.s IN
     /\ (ln.k \in {"die", "sigdeath"} /\ ln.cb = 1) \/
        /\ o.slot = t.slot /\ o.stopping = t.stopping /\ o.restarting = t.restarting
        /\ o.wl = [j \in 1..Len(t.wl) |-> WN(t, t.wl[j])]
        /\ SeqSet(o.wn) = { e.k : e \in SeqSet(t.wn) } /\ Len(o.wn) = Len(t.wn)
        /\ Len(o.w) = Len(DirSeq(t))
        /\ \A jj \in 1..Len(DirSeq(t)) : LET i == DirSeq(t)[jj] IN
             /\ o.w[jj].n = WN(t, i) /\ o.w[jj].st = t.ws[i].st /\ o.w[jj].np = t.ws[i].np
             /\ o.w[jj].pr = [j \in 1..Len(t.ws[i].pr) |->
                               <<t.ws[i].pr[j].p, t.ws[i].pr[j].wid, IF t.k[t.ws[i].pr[j].p].stp THEN 1 ELSE 0>>]
     /\ Len(o.k) = NP(t)
     /\ \A p \in 1..NP(t) : o.k[p][2] = t.k[p].st /\ o.k[p][3] = t.k[p].ws /\ o.k[p][4] = t.k[p].par

LineOK(t, ln) == /\ t.out.k = ln.k /\ t.out.p = ln.p /\ t.out.a = ln.a /\ t.out.r = ln.r /\ t.out.x = ln.x
                 /\ (ln.k \in {"ev", "hook", "spawn", "reply", "selw", "selc"} => t.out.w = ln.w)
                 /\ StateOK(t, ln)

\* the order in which reload_from_config went through its three loops, read off the selw / selc lines that follow
\* the request (while the slot is held by the reload): a name looked up (selw) and then looked up in the new file
\* (selc) was in the maybe-changed loop; looked up only: deleted; only in the new file: added
SelLines(from) ==
  LET \* the reload is over at the first later line that shows the slot in other hands (or free)
      R == { j \in (from + 1)..Len(Tr) : "s" \in DOMAIN Tr[j] /\ Tr[j].s.slot # "arbiter_reload_config" }
      last == IF R = {} THEN Len(Tr) ELSE Min(R) - 1
  IN SelectSeq([j \in 1..(last - from) |-> Tr[from + j]], LAMBDA x : x.k \in {"selw", "selc"})
PlanOf(from) ==
  LET sl == SelLines(from)
      \* (the maybe-changed loop sees every name once, and first: a later selw of the same name is the delete loop,
      \*  even when the add loop's selc of that name follows it at once because stopping it took no step)
      isChgW(j) == /\ sl[j].k = "selw" /\ j < Len(sl) /\ sl[j + 1].k = "selc" /\ sl[j + 1].w = sl[j].w
                   /\ \A i \in 1..(j - 1) : ~(sl[i].k = "selw" /\ sl[i].w = sl[j].w)
      isChgC(j) == sl[j].k = "selc" /\ j > 1 /\ isChgW(j - 1)
      names(P(_)) == LET ix == SelectSeq([j \in 1..Len(sl) |-> j], P) IN [j \in 1..Len(ix) |-> sl[ix[j]].w]
  IN [chg |-> names(isChgW),
      del |-> names(LAMBDA j : sl[j].k = "selw" /\ ~isChgW(j)),
      add |-> names(LAMBDA j : sl[j].k = "selc" /\ ~isChgC(j))]
FileOf(q) == [j \in 1..Len(q.file) |->
                [n |-> q.file[j].n, ln |-> q.file[j].ln, np |-> q.file[j].np, ver |-> q.file[j].ver, G |-> q.file[j].Gp,
                 W |-> q.file[j].Wt, sing |-> q.file[j].sing, prio |-> q.file[j].prio, auto |-> q.file[j].auto,
                 resp |-> q.file[j].resp, ssig |-> q.file[j].ssig, sch |-> q.file[j].sch, hup |-> q.file[j].hup,
                 retry |-> q.file[j].retry]]

ReqOf(ln) == [cmd |-> ln.q.cmd, name |-> ln.q.name, lname |-> ln.q.lname, hasname |-> ln.q.hasname,
              mid |-> ln.q.mid, waiting |-> ln.q.waiting, cast |-> ln.q.cast, pid |-> ln.q.pid,
              signum |-> ln.q.signum, children |-> ln.q.children, recursive |-> ln.q.recursive,
              childpid |-> ln.q.childpid, nb |-> IF ln.q.cmd = "set" THEN ln.q.setnp ELSE ln.q.nb,
              G |-> ln.q.Gp, nostop |-> ln.q.nostop, graceful |-> ln.q.graceful,
              sequential |-> ln.q.sequential, raw |-> ln.q.raw, start |-> ln.q.start, addnp |-> ln.q.addnp,
              addG |-> ln.q.addGp, addW |-> ln.q.addWt, addsing |-> ln.q.addsing, nopts |-> ln.q.nopts, pattern |-> ln.q.pattern,
              opts |-> ln.q.opts, matches |-> ln.q.matches, file |-> FileOf(ln.q),
              plan |-> IF ln.q.cmd = "reloadconfig" THEN PlanOf(l + 1) ELSE [chg |-> <<>>, del |-> <<>>, add |-> <<>>],
              rovalid |-> ln.q.rovalid, adduid |-> ln.q.adduid, arbchg |-> ln.q.arbchg]

Tk(ms) == (ms + 50) \div 100

\* consume line l+1 with model step t
\* (a worker is born when its spawn line says so: after a blocking reap that is off the model's grid by some ms)
Born(t, ln) == IF ln.k = "spawn" /\ ln.p \in 1..Len(t.k) THEN [t EXCEPT !.k[ln.p].born = ln.t] ELSE t
Consume(t) == /\ LineOK(t, Tr[l + 1]) /\ s' = Born(t, Tr[l + 1]) /\ l' = l + 1 /\ tid' = tid
Silent(t) == /\ t.out = NoLine /\ s' = t /\ l' = l /\ tid' = tid

Next ==
  /\ l < Len(Tr)
  /\ LET ln == Tr[l + 1] IN
     \/ /\ MustSettle(s) /\ Consume(SigDeath(s, Min(Dying(s))))
     \/ /\ ~MustSettle(s) /\ s.cbpend /\ Consume(CbLine(s))
     \/ /\ ~MustSettle(s) /\ ~s.cbpend
        /\ \/ /\ s.cur # <<>>
              /\ \/ \E ob \in BOOLEAN : LET t == RunTop(s, ob) IN Consume(t) \/ Silent(t)
                 \/ ln.k = "die" /\ ln.p \in 1..NP(s) /\ s.k[ln.p].st = "run" /\ Consume(Die(s, ln.p, ln.a))
                 \/ ln.k = "sigdeath" /\ ln.p \in Dying(s) /\ Consume(SigDeath(s, ln.p))
           \/ /\ s.cur = <<>> /\ s.rq # <<>>
              /\ LET t == RunCb(s) IN Consume(t) \/ Silent(t)
           \/ /\ s.cur = <<>> /\ s.rq = <<>>
              /\ \/ \E t \in DueTimers(s) : Silent(FireTimer(s, t))
                 \/ s.pnext # -1 /\ s.pnext <= s.now /\ Silent(FirePeriodic(s))
                 \/ CanPeriodicEarly(s) /\ Silent(PeriodicEarly(s))
           \/ /\ s.cur = <<>>
              /\ \/ ln.k = "boot" /\ ~s.booted /\ Consume(Boot(s))
                 \/ ln.k = "tick" /\ HasDeadline(s)
                      /\ LET t == Tick(s) IN t.now = Tk(ln.t) /\ Consume(t)
                 \/ ln.k = "req" /\ ~ln.q.raw /\ Consume(Request(s, ReqOf(ln), ln.x))
                 \/ ln.k = "die" /\ ln.p \in 1..NP(s) /\ s.k[ln.p].st = "run" /\ Consume(Die(s, ln.p, ln.a))
                 \/ ln.k = "extkill" /\ ln.p \in 1..NP(s) /\ s.k[ln.p].st = "run" /\ Consume(ExtKill(s, ln.p, ln.a))
                 \/ ln.k = "fork" /\ ln.a \in 1..NP(s) /\ s.k[ln.a].st = "run" /\ ln.p = NP(s) + 1
                      /\ \E ob \in BOOLEAN : Consume(Fork(s, ln.a, ob))
                 \/ ln.k = "dsig" /\ Consume(DaemonSignal(s, ln.a))
                 \/ ln.k = "sockev" /\ Consume(SockReady(s, ln.a = 1))
                 \/ ln.k = "spawnfault" /\ Consume(AddFault(s, ln.r))
                 \/ ln.k \in {"probe", "end"} /\ Consume(EnvLine(s, Line(ln.k, "", 0, 0, "", "")))

Spec == Init /\ [][Next]_tvars

\* remember how far each trace got
Progress == TLCSet(tid, IF TLCGet(tid) < l THEN l ELSE TLCGet(tid))
View == <<tid, l, [s EXCEPT !.out = NoLine]>>
Report == \A t \in 1..Len(Traces) : PrintT(<<"CONF", t, TLCGet(t), Len(Traces[t])>>)
=============================================================================

------------------------------- MODULE Cmdline -------------------------------
(***************************************************************************************************)
(* C13 (a): the argument vector of a worker.                                                       *)
(*                                                                                                 *)
(*   "Every worker is executed with the argument vector obtained from the watcher's cmd and args   *)
(*    after variable substitution -- list arguments kept as given, string arguments split by       *)
(*    shell quoting rules, $(circus.wid) replaced by that worker's id, unknown variables left      *)
(*    verbatim"                                                                                    *)
(*                                                                                                 *)
(* This module DEFINES that vector:  Argv(cmd, args, vars, shell).                                 *)
(*                                                                                                 *)
(* A string is a sequence of TOKENS.  A token stands for one special character or for one maximal  *)
(* run of characters none of which is special (to the substitution or to the splitting):           *)
(*     ws    a word separator: a non-empty run of blanks (never quoted by construction)            *)
(*     sp    one space character that is meant to be part of an argument                           *)
(*     sq dq bs   the characters  '  "  \                                                          *)
(*     dl    a dollar sign that is not the start of a reference                                    *)
(*     lit   a run of characters that sh leaves alone       ([A-Za-z0-9_@%+=:,./-]+)               *)
(*     ulit  a run containing characters special to sh but not to POSIX word splitting: star,      *)
(*           ; & | < > ~ # ! ? [ ] { } ` ^ and non-ASCII letters; no blank, quote, backslash,       *)
(*           dollar, parenthesis                                                                   *)
(*     ref   a reference to a known variable, in either syntax  $(circus.X)  ((circus.X))  and in  *)
(*           any letter case -- the syntax and the case are NOT part of the token: the definition  *)
(*           below does not look at them, which is the claim "both syntaxes, any letter case"      *)
(*     unk   a reference (either syntax, any case) to a name that is not a known variable          *)
(*     dref  $(circus.circus.X) with X known: the variable "circus.X" is not a known variable      *)
(*     uenv  a reference to the bare name  env  ( $(circus.env) ): not a known variable either      *)
(*     val   a run of non-special characters that came out of the value of a variable              *)
(* x is an integer: the position of the part that produced the token (so that two literals are two *)
(* different texts), for ref/dref  10*position + variable index.                                   *)
(*                                                                                                 *)
(* cmd and string args are built from WORDS of PARTS; a part is a content inside a quoting:        *)
(*     content  lit | ulit | sp | dl | ref v | unk | dref v | uenv | apos (the char. ') | quot (") *)
(*     quoting  none | sq '...' | dq "..." | bs \x                                                 *)
(* This is the fragment {plain, '...', "...", backslash-space} of the POSIX shell word syntax.     *)
(*                                                                                                 *)
(* Deviations of the code from the statement are named branches (TRUE = as the code behaves).      *)
(***************************************************************************************************)
EXTENDS Integers, Sequences, FiniteSets

CONSTANTS Dev_DoublePrefix,  \* util.replace_gnu_args: a captured name that starts with "circus" is
                             \* looked up as it is, so $(circus.circus.wid) resolves like $(circus.wid)
                             \* although no variable "circus.wid" below the circus namespace exists
                             \* (statement: unknown variables are left verbatim)
          Dev_EnvNone        \* Watcher.spawn_process pre-expands cmd with replace_gnu_args(cmd, env=self.env);
                             \* when the watcher has no environment (env not given, copy_env off) self.env
                             \* is None and the scalar None is registered under the name "env": the unknown
                             \* reference $(circus.env) in cmd (not in args) becomes the text None

AllDevs == {"DoublePrefix", "EnvNone"}
CodeDevs == {d \in AllDevs : (d = "DoublePrefix" /\ Dev_DoublePrefix) \/ (d = "EnvNone" /\ Dev_EnvNone)}

NOENV == 4      \* index under which vars carries the text of "no environment" (present iff the watcher has none)

Tok(k, x) == [k |-> k, x |-> x]
WS == Tok("ws", 0)
SP == Tok("sp", 0)
SQ == Tok("sq", 0)
DQ == Tok("dq", 0)
BS == Tok("bs", 0)
DL == Tok("dl", 0)
ERR == Tok("error", 0)

RECURSIVE Flat(_)
Flat(ss) == IF ss = <<>> THEN <<>> ELSE Head(ss) \o Flat(Tail(ss))

---------------------------------------------------------------------------------------------------
(* From parts to strings *)

Quotings == {"none", "sq", "dq", "bs"}
Contents == {"lit", "ulit", "sp", "dl", "ref", "unk", "dref", "uenv", "apos", "quot"}

Part(q, c, v) == [q |-> q, c |-> c, v |-> v]

\* which content may stand in which quoting so that the quoting is balanced and means what it says
WellFormedPart(p) ==
    CASE p.q = "none" -> p.c \in {"lit", "ulit", "dl", "ref", "unk", "dref", "uenv"}
      [] p.q = "sq"   -> p.c \in {"lit", "ulit", "sp", "dl", "ref", "unk", "dref", "uenv", "quot"}
      [] p.q = "dq"   -> p.c \in {"lit", "ulit", "sp", "dl", "ref", "unk", "dref", "uenv", "apos"}
      [] p.q = "bs"   -> p.c \in {"sp", "apos", "quot"}

ContentText(p, pos) ==
    CASE p.c = "lit"  -> <<Tok("lit", pos)>>
      [] p.c = "ulit" -> <<Tok("ulit", pos)>>
      [] p.c = "sp"   -> <<SP>>
      [] p.c = "dl"   -> <<DL>>
      [] p.c = "apos" -> <<SQ>>
      [] p.c = "quot" -> <<DQ>>
      [] p.c = "ref"  -> <<Tok("ref", 10 * pos + p.v)>>
      [] p.c = "dref" -> <<Tok("dref", 10 * pos + p.v)>>
      [] p.c = "unk"  -> <<Tok("unk", pos)>>
      [] p.c = "uenv" -> <<Tok("uenv", pos)>>

PartText(p, pos) ==
    CASE p.q = "none" -> ContentText(p, pos)
      [] p.q = "sq"   -> <<SQ>> \o ContentText(p, pos) \o <<SQ>>
      [] p.q = "dq"   -> <<DQ>> \o ContentText(p, pos) \o <<DQ>>
      [] p.q = "bs"   -> <<BS>> \o ContentText(p, pos)

\* a word is a non-empty sequence of parts; base numbers the parts (base + index)
WordText(w, base) == Flat([i \in 1 .. Len(w) |-> PartText(w[i], base + i)])

\* a string of words: separated by blanks
StringText(ws, base) ==
    Flat([i \in 1 .. Len(ws) |-> (IF i > 1 THEN <<WS>> ELSE <<>>) \o WordText(ws[i], base + 10 * i)])

---------------------------------------------------------------------------------------------------
(* Variable substitution.  vars: variable index -> value (a token string of val and sp tokens).   *)
(* One left-to-right pass; what a value contains is not looked at again.                            *)

VarOf(t) == t.x % 10

\* devs: the deviation branches taken (a subset of AllDevs); incmd: the string is the watcher's cmd
SubstTok(t, vars, devs, incmd) ==
    IF t.k = "ref" /\ VarOf(t) \in DOMAIN vars THEN vars[VarOf(t)]
    ELSE IF t.k = "dref" /\ "DoublePrefix" \in devs /\ VarOf(t) \in DOMAIN vars THEN vars[VarOf(t)]
    ELSE IF t.k = "uenv" /\ "EnvNone" \in devs /\ incmd /\ NOENV \in DOMAIN vars THEN vars[NOENV]
    ELSE <<t>>                                 \* everything else, unknown references included: verbatim

Subst(text, vars, devs, incmd) == Flat([i \in 1 .. Len(text) |-> SubstTok(text[i], vars, devs, incmd)])

---------------------------------------------------------------------------------------------------
(* POSIX word splitting (the quoting rules of sh for the fragment; = shlex.split(posix=True)):     *)
(*   unquoted blanks separate words; '...' keeps everything; "..." keeps everything except that    *)
(*   \" and \\ stand for " and \ ; an unquoted \x stands for x; a quoting, even empty, makes a    *)
(*   word.  A state machine over the tokens.                                                        *)

IsBlank(t) == t.k \in {"ws", "sp"}

S0 == [out |-> <<>>, cur |-> <<>>, mode |-> "out"]

Open(s, t) ==    \* t met outside quotes, while in a word or between words
    CASE t.k = "sq" -> [s EXCEPT !.mode = "sq"]
      [] t.k = "dq" -> [s EXCEPT !.mode = "dq"]
      [] t.k = "bs" -> [s EXCEPT !.mode = "esc"]
      [] OTHER      -> [s EXCEPT !.mode = "word", !.cur = Append(@, t)]

Step(s, t) ==
    CASE s.mode = "out"   -> IF IsBlank(t) THEN s ELSE Open(s, t)
      [] s.mode = "word"  -> IF IsBlank(t) THEN [out |-> Append(s.out, s.cur), cur |-> <<>>, mode |-> "out"]
                             ELSE Open(s, t)
      [] s.mode = "sq"    -> IF t.k = "sq" THEN [s EXCEPT !.mode = "word"] ELSE [s EXCEPT !.cur = Append(@, t)]
      [] s.mode = "dq"    -> IF t.k = "dq" THEN [s EXCEPT !.mode = "word"]
                             ELSE IF t.k = "bs" THEN [s EXCEPT !.mode = "dqesc"]
                             ELSE [s EXCEPT !.cur = Append(@, t)]
      [] s.mode = "esc"   -> [s EXCEPT !.mode = "word", !.cur = Append(@, t)]
      [] s.mode = "dqesc" -> [s EXCEPT !.mode = "dq",
                                       !.cur = IF t.k \in {"bs", "dq"} THEN Append(@, t) ELSE @ \o <<BS, t>>]
      [] OTHER            -> s

RECURSIVE Run(_, _)
Run(s, text) == IF text = <<>> THEN s ELSE Run(Step(s, Head(text)), Tail(text))

Split(text) ==
    LET s == Run(S0, text)
    IN  CASE s.mode = "out"  -> s.out
          [] s.mode = "word" -> Append(s.out, s.cur)
          [] OTHER           -> <<<<ERR>>>>           \* unbalanced quoting: no argument vector

---------------------------------------------------------------------------------------------------
(* shell = True: process.py joins the words with shlex.quote into ONE string handed to sh -c.      *)

ShSafe(t) == t.k \in {"lit", "val"}          \* [A-Za-z0-9_@%+=:,./-]+ by the rendering contract

Quote(w) ==
    IF w = <<>> THEN <<SQ, SQ>>
    ELSE IF \A i \in 1 .. Len(w) : ShSafe(w[i]) THEN w
    ELSE <<SQ>> \o Flat([i \in 1 .. Len(w) |-> IF w[i].k = "sq" THEN <<SQ, DQ, SQ, DQ, SQ>> ELSE <<w[i]>>])
              \o <<SQ>>

ShellString(argv) ==
    Flat([i \in 1 .. Len(argv) |-> (IF i > 1 THEN <<SP>> ELSE <<>>) \o Quote(argv[i])])

---------------------------------------------------------------------------------------------------
(* The argument vector.  args = [ak |-> "none" | "str" | "list", ws |-> sequence of words].        *)
(* A list element is the word's text as it stands: its quote characters are ordinary characters,   *)
(* it is substituted and never split.                                                               *)

Words(cmd, args, vars, devs) ==
    LET cw == Split(Subst(StringText(cmd, 100), vars, devs, TRUE))
        aw == CASE args.ak = "none" -> <<>>
                [] args.ak = "str"  -> Split(Subst(StringText(args.ws, 200), vars, devs, FALSE))
                [] args.ak = "list" -> [i \in 1 .. Len(args.ws) |->
                                            Subst(WordText(args.ws[i], 200 + 10 * i), vars, devs, FALSE)]
    IN  cw \o aw

ArgvDev(cmd, args, vars, shell, devs) ==
    IF shell THEN <<ShellString(Words(cmd, args, vars, devs))>> ELSE Words(cmd, args, vars, devs)

\* what the code passes to the process-creation call
Argv(cmd, args, vars, shell) == ArgvDev(cmd, args, vars, shell, CodeDevs)

\* what the statement demands (no deviation branch taken)
Demanded(cmd, args, vars, shell) == ArgvDev(cmd, args, vars, shell, {})

\* the strings themselves (what the harness renders into concrete spellings)
CmdText(cmd) == StringText(cmd, 100)
ArgsText(args) ==
    CASE args.ak = "none" -> <<>>
      [] args.ak = "str"  -> <<StringText(args.ws, 200)>>
      [] args.ak = "list" -> [i \in 1 .. Len(args.ws) |-> WordText(args.ws[i], 200 + 10 * i)]

===============================================================================

CONSTANTS
  Dev_EmptyNoReply = FALSE
  Dev_NonObjectNoReply = FALSE
  Dev_NoCommandNoReply = FALSE
  Dev_WaitFailNoReply = FALSE
  Dev_DeepNoReply = FALSE
  Dev_StatusOverwrite = FALSE
  Dev_NonfiniteEcho = FALSE
  Dev_QuitWaitLost = FALSE
  Dev_GarbageAborts = FALSE
  Dev_AsyncNoTimeout = FALSE
  MaxFrames = 3
  Part = "daemon"
INIT Init
NEXT Next
CHECK_DEADLOCK FALSE
INVARIANT Inv_D_Statement
INVARIANT Inv_D_Explained
INVARIANT Inv_D_AtMostOne
INVARIANT Inv_D_Run

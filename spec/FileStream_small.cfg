CONSTANTS
  Ms <- small_Ms
  Ns <- small_Ns
  MaxN = 3
  Sizes <- small_Sizes
  Extras <- small_Extras
  PreSizes <- small_Pre
  PreActive <- small_PreActive
  MaxWrites = 8
  Dev_RawLenTest = TRUE
  EmitHist = FALSE
INIT Init
NEXT Next
VIEW View
CONSTRAINT Emit
CHECK_DEADLOCK FALSE
INVARIANT C20_Size
INVARIANT C20_Count
INVARIANT C20_Tail
INVARIANT C20_Plain

------------------------------- MODULE SimCore -------------------------------
(***************************************************************************)
(* Spec -> code direction: behaviours of Core sampled with `tlc -simulate`, *)
(* reduced to their ENVIRONMENT part (boot, requests, deaths with their     *)
(* placement, external kills, ticks, daemon signals, the behaviour chosen    *)
(* for each new worker) and printed as JSON.  harness/modelstim.py turns     *)
(* each into a stimulus script that is run against the real code; the        *)
(* recorded trace then goes through the strict and the monitor pass like     *)
(* any other.  `hist` and `kc` are history variables outside the VIEW.       *)
(***************************************************************************)
EXTENDS MC_core, Json

CONSTANT SimDepth

VARIABLES hist, kc
svars == <<s, g, bad, n, hist, kc>>

KCallKinds == {"status", "poll", "signal", "csignal", "waitpid", "waitany", "children", "spawn", "spawnfail"}
EnvOut == {"boot", "tick", "req", "die", "extkill", "dsig", "fork", "probe", "spawnfault"}

Entry(before, after) ==
  LET o == after.out IN
  CASE o.k = "req" -> [k |-> "req", q |-> after.creq, p |-> 0, a |-> 0, kc |-> 0]
    [] o.k = "die" -> [k |-> "die", q |-> QuitReq, p |-> o.p, a |-> o.a, kc |-> IF before.cur # <<>> THEN kc + 1 ELSE 0]
    [] o.k = "spawn" -> [k |-> "spawn", q |-> QuitReq, p |-> o.p, a |-> o.a, kc |-> 0]
    [] OTHER -> [k |-> o.k, q |-> QuitReq, p |-> o.p, a |-> o.a, kc |-> 0]

SInit == Init /\ hist = <<>> /\ kc = 0
SNext == /\ Next
         /\ hist' = IF s'.out.k \in (EnvOut \cup {"spawn"}) THEN Append(hist, Entry(s, s')) ELSE hist
         /\ kc' = IF s'.cur = <<>> THEN 0 ELSE IF s'.out.k \in KCallKinds THEN kc + 1 ELSE kc

SView == <<s, g, bad, n>>

\* print the environment part of the behaviour when the depth bound is reached
EmitScript == TLCGet("level") < SimDepth \/ PrintT(<<"SCRIPT", ToJson([cfg |-> s.cfg, hist |-> hist])>>)
=============================================================================

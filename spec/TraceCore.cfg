CONSTANTS
  MaxFrames = 20
  Dev_PruneWithoutReap = FALSE
  Dev_AfterSpawnKillDetached = TRUE
  Dev_BuiltinIgnoreList = TRUE
  Dev_AddEmptyNameReturns = FALSE
  Dev_QuitRefusedWhenBusy = FALSE
  Dev_SocketEventStartsAll = FALSE
  Dev_OpsAfterStop = FALSE
  Dev_ChildrenRelisted = TRUE
INIT Init
NEXT Next
CONSTRAINT Progress
VIEW View
POSTCONDITION Report
CHECK_DEADLOCK FALSE

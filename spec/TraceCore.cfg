CONSTANTS
  MaxFrames = 20
  Dev_PruneWithoutReap = TRUE
  Dev_AfterSpawnKillDetached = TRUE
  Dev_BuiltinIgnoreList = TRUE
  Dev_AddEmptyNameReturns = TRUE
INIT Init
NEXT Next
CONSTRAINT Progress
VIEW View
POSTCONDITION Report
CHECK_DEADLOCK FALSE

CONSTANT Dev_DoublePrefix = TRUE
CONSTANT Dev_EnvNone = TRUE
INIT Init
NEXT Next
CHECK_DEADLOCK FALSE
INVARIANT T_pipeline
INVARIANT T_replaced
INVARIANT T_verbatim
INVARIANT T_list
INVARIANT T_wellformed
INVARIANT T_shell
INVARIANT T_dev
POSTCONDITION Emit

------------------------------- MODULE Signum -------------------------------
(***************************************************************************)
(* C18, second sentence (shape O, oracle):                                 *)
(*                                                                         *)
(*   "Signal designations (numbers, numeric strings, names with or without *)
(*    the SIG prefix in any letter case) denote the same signal everywhere *)
(*    they are accepted -- requests, the stop_signal option, configuration *)
(*    files -- and anything else is refused without a signal being sent."  *)
(*                                                                         *)
(* The module defines, for every abstract input class x accepting site,    *)
(*   dem : what the STATEMENT demands  (Demanded)                          *)
(*   cod : what circus DOES            (AsCoded; deviations from the       *)
(*         statement are the branches guarded by the Dev_ constants, TRUE  *)
(*         = as the code behaves: circus/util.py:305-334)                  *)
(*   dev : the Dev_ branch that decides cod at this case ("none" if none)  *)
(* TLC enumerates the whole space (one initial state per case), checks the *)
(* sanity invariants below and writes the cases, with both expectations,   *)
(* as JSON to IOEnv.OUT_FILE.  harness/check_c18b.py renders every case    *)
(* into concrete spellings and compares with the real code.                *)
(*                                                                         *)
(* The signal table (what "the signal named N" is) is Python's own signal  *)
(* module, which is how the property defines it (oracle: signal.<NAME>).   *)
(* The harness writes it to IOEnv.SIG_TABLE; without it a small built-in   *)
(* table is used so that the module can be checked stand-alone:            *)
(*   java -cp tla2tools.jar:CommunityModules-deps.jar tlc2.TLC \           *)
(*        -config Signum.cfg Signum.tla                                    *)
(***************************************************************************)
EXTENDS Integers, Sequences, FiniteSets, TLC, Json, IOUtils, SequencesExt

CONSTANTS Dev_PrefixMatch,     \* re.match instead of a full match: NAME followed by junk that starts with a
                               \* non-word character is accepted as NAME ("KILL!", "TERM junk", "RTMAX-1")
          Dev_NonSignalAttr,   \* getattr(signal, "SIG"+X) also resolves SIG_IGN, SIG_DFL, SIG_BLOCK, ...
          Dev_AttributeError   \* an unknown name raises AttributeError (the code catches KeyError), which the
                               \* request validators do not turn into MessageError

DefaultTable ==
  [signals |-> << [name |-> "HUP", num |-> 1], [name |-> "INT", num |-> 2], [name |-> "ABRT", num |-> 6],
                  [name |-> "IOT", num |-> 6], [name |-> "KILL", num |-> 9], [name |-> "USR1", num |-> 10],
                  [name |-> "TERM", num |-> 15], [name |-> "IO", num |-> 29], [name |-> "RTMIN", num |-> 34],
                  [name |-> "RTMAX", num |-> 64] >>,
   nonsig  |-> << [name |-> "_IGN", num |-> 1], [name |-> "_DFL", num |-> 0], [name |-> "_BLOCK", num |-> 0] >>,
   modattrs |-> << "Signals", "NSIG", "ITIMER_REAL", "alarm" >>,
   rtmin |-> 34, rtmax |-> 64, kmax |-> 64]

Table == IF "SIG_TABLE" \in DOMAIN IOEnv THEN JsonDeserialize(IOEnv.SIG_TABLE) ELSE DefaultTable

Elems(s) == {s[i] : i \in 1..Len(s)}
Sigs     == Elems(Table.signals)     \* every member of signal.Signals (aliases included), name without "SIG"
NonSig   == Elems(Table.nonsig)      \* integer attributes SIG_* of the module that are not signals
ModAttrs == Elems(Table.modattrs)    \* every other public attribute name of the module
KMax     == Table.kmax               \* the kernel delivers exactly the signals 1..KMax
RtMin    == Table.rtmin
RtSpan   == Table.rtmax - Table.rtmin

NumOf(name) == (CHOOSE s \in Sigs : s.name = name).num

(***************************************************************************)
(* Accepting sites.                                                        *)
(*  to_signum : circus.util.to_signum                                      *)
(*  signal    : `signal` request, property signum (Signal.validate)        *)
(*  kill      : `kill` request, property signum (Kill.validate)            *)
(*  set_cli   : circusctl set NAME stop_signal V  (Set.message ->          *)
(*              convert_option, then the daemon: Set.validate ->           *)
(*              validate_option, Watcher.set_opt)                          *)
(*  set_wire  : `set` request with options.stop_signal = V as sent by a    *)
(*              JSON client (validate_option, Watcher.set_opt)             *)
(*  add_wire  : `add` request with options.stop_signal = V                 *)
(*              (validate_option, Watcher(stop_signal=V))                  *)
(*  ini       : stop_signal = V in a [watcher:x] section (config.get_config*)
(*              then Watcher.load_from_config)                             *)
(*  setopt    : Watcher.set_opt("stop_signal", V)                          *)
(***************************************************************************)
Sites == {"to_signum", "signal", "kill", "set_cli", "set_wire", "add_wire", "ini", "setopt"}

\* sites whose interface is typed: the daemon demands a JSON integer for options.stop_signal, every string is
\* turned down with "isn't an integer" before it is looked at.  The statement speaks of designations "everywhere
\* they are accepted": turning a designation down is allowed there, denoting another signal is not.
Typed(site) == site \in {"set_wire", "add_wire"}
\* sites that only ever see text
TextOnly(site) == site \in {"set_cli", "ini"}

Cases3  == {"lower", "upper", "mixed"}
NameKinds == {"name", "signame"}                 \* without / with the SIG prefix
Junks   == {"bang", "spaceword", "minus", "plus", "plusword", "nlword", "comma"}
           \* NAME!   NAME junk   NAME-1   NAME+   NAME+x      NAME\nx    NAME,TERM
NumJunks == {"x", "bang", "space", "plus", "hex"} \* 9x  9!  9 9  9+1  0x9
Unknown == {"FOO", "NULL", "TERMINATE"}
OutOfRange == {0, -1, -9, KMax + 1, 128, 99999, 2147483647}

D(cls, kind, case, sig, n, junk) == [cls |-> cls, kind |-> kind, case |-> case, sig |-> sig, n |-> n, junk |-> junk]

(***************************************************************************)
(* The designations ...                                                    *)
(***************************************************************************)
Designations ==
     {D("int",     "int",    "na", "", k, "") : k \in 1..KMax}
  \cup {D("numstr",  "numstr", "na", "", k, "") : k \in 1..KMax}
  \cup {D("name",    k, c, s.name, 0, "") : k \in NameKinds, c \in Cases3, s \in Sigs}
  \cup {D("nameoff", k, c, "RTMIN", o, "") : k \in NameKinds, c \in Cases3, o \in 0..RtSpan}
       \* 'SIGRTMIN+1' - "signal names with offsets" is the documented fifth format of to_signum

\* numbers that designate no signal: the statement (DESIGN.md section 5) only requires that none is delivered
NoSignalNumbers ==
     {D("int_oor",     "int",    "na", "", k, "") : k \in OutOfRange}
  \cup {D("numstr_oor",  "numstr", "na", "", k, "") : k \in OutOfRange}
  \cup {D("nameoff_oor", k, c, "RTMIN", o, "") : k \in NameKinds, c \in Cases3, o \in {RtSpan + 1, 99}}

(***************************************************************************)
(* ... and the near misses: "anything else".                               *)
(***************************************************************************)
NearMisses ==
     {D("empty", "text", "na", "", 0, "")}
  \cup {D("sigalone", "text", c, "", 0, "") : c \in Cases3}                           \* "SIG"
  \cup {D("trunc", k, c, s.name, 0, "") : k \in NameKinds, c \in Cases3, s \in Sigs}    \* "TER", "SIGKIL"
  \cup {D("extended", k, c, s.name, 0, "") : k \in NameKinds, c \in Cases3, s \in Sigs} \* "KILLX", "SIGTERM_"
  \cup {D("embspace", k, c, s.name, 0, "") : k \in NameKinds, c \in Cases3, s \in Sigs} \* "SIG TERM", "TE RM"
  \cup {D("leadjunk", k, c, s.name, 0, "") : k \in NameKinds, c \in Cases3, s \in Sigs} \* "!KILL"
  \cup {D("junk", k, c, s.name, 0, j) : k \in NameKinds, c \in Cases3, s \in Sigs, j \in Junks}
  \cup {D("nonsigattr", k, c, a.name, a.num, "") : k \in NameKinds, c \in Cases3, a \in NonSig} \* "SIG_IGN", "_ign"
  \cup {D("modattr", "text", c, a, 0, "") : c \in Cases3, a \in ModAttrs}               \* "Signals", "NSIG"
  \cup {D("unknown", k, c, u, 0, "") : k \in NameKinds, c \in Cases3, u \in Unknown}    \* "SIGFOO"
  \cup {D("numjunk", "text", "na", "", 9, j) : j \in NumJunks}

Inputs == Designations \cup NoSignalNumbers \cup NearMisses

IsInt(d) == d.kind = "int"

Applicable(d, site) ==
  /\ TextOnly(site) => ~IsInt(d)
  /\ site = "ini" => d.junk # "nlword"        \* a line break cannot be part of an ini value

(***************************************************************************)
(* What the statement demands.                                             *)
(***************************************************************************)
Denote(d) == CASE d.cls \in {"int", "numstr"} -> d.n
               [] d.cls = "name"              -> NumOf(d.sig)
               [] d.cls = "nameoff"           -> RtMin + d.n

Demanded(d, site) ==
  IF d \in Designations
    THEN IF Typed(site) /\ ~IsInt(d) THEN [t |-> "num_or_refuse", n |-> Denote(d)]
                                     ELSE [t |-> "num", n |-> Denote(d)]
  ELSE IF d \in NoSignalNumbers THEN [t |-> "nodeliver", n |-> 0]   \* any result that cannot deliver a signal
  ELSE [t |-> "refuse", n |-> 0]

(***************************************************************************)
(* What the code does (util.to_signum, then the site's own wrapping).      *)
(***************************************************************************)
Num(n)    == [t |-> "num", n |-> n, exc |-> ""]
Refuse(e) == [t |-> "refuse", n |-> 0, exc |-> e]
UnknownName == Refuse(IF Dev_AttributeError THEN "AttributeError" ELSE "ValueError")

ToSignum(d) ==
  CASE d.cls \in {"int", "numstr", "int_oor", "numstr_oor"} -> Num(d.n)         \* int(signum)
    [] d.cls = "name"                                        -> Num(NumOf(d.sig))
    [] d.cls \in {"nameoff", "nameoff_oor"}                  -> Num(RtMin + d.n)
    [] d.cls \in {"empty", "leadjunk"}                       -> Refuse("ValueError") \* the pattern does not match
    [] d.cls = "junk"       -> IF Dev_PrefixMatch THEN Num(NumOf(d.sig)) ELSE Refuse("ValueError")
    [] d.cls = "nonsigattr" -> IF Dev_NonSignalAttr THEN Num(d.n) ELSE UnknownName
    [] OTHER                -> UnknownName   \* sigalone trunc extended embspace modattr unknown numjunk

AsCoded(d, site) ==
  LET r == ToSignum(d) IN
  CASE Typed(site) -> IF IsInt(d) THEN Num(d.n) ELSE Refuse("MessageError")       \* validate_option: isinstance int
    [] site \in {"signal", "kill"} -> IF r.t = "refuse" /\ r.exc = "ValueError" THEN Refuse("MessageError") ELSE r
    [] OTHER -> r

DevOf(d, site) ==
  IF Typed(site) /\ ~IsInt(d) THEN "none"
  ELSE CASE d.cls = "junk" /\ Dev_PrefixMatch         -> "PrefixMatch"
         [] d.cls = "nonsigattr" /\ Dev_NonSignalAttr -> "NonSignalAttr"
         [] d.cls \in {"sigalone", "trunc", "extended", "embspace", "modattr", "unknown", "numjunk"}
            /\ Dev_AttributeError                    -> "AttributeError"
         [] OTHER -> "none"

Case(d, site) == [site |-> site, cls |-> d.cls, kind |-> d.kind, case |-> d.case, sig |-> d.sig, n |-> d.n,
                  junk |-> d.junk, dem |-> Demanded(d, site), cod |-> AsCoded(d, site), dev |-> DevOf(d, site)]

CaseSet  == {Case(x[1], x[2]) : x \in {y \in Inputs \X Sites : Applicable(y[1], y[2])}}

\* does a result satisfy a demand?  (KMax: what the kernel can deliver)
Satisfies(r, dem) ==
  CASE dem.t = "num"           -> r.t = "num" /\ r.n = dem.n
    [] dem.t = "num_or_refuse" -> r.t = "refuse" \/ (r.t = "num" /\ r.n = dem.n)
    [] dem.t = "refuse"        -> r.t = "refuse"
    [] dem.t = "nodeliver"     -> r.t = "refuse" \/ (r.t = "num" /\ r.n \notin 1..KMax)

(***************************************************************************)
(* Enumeration by TLC: one initial state per case.                         *)
(***************************************************************************)
VARIABLE cse
Init == cse \in CaseSet
Next == UNCHANGED cse

\* the Dev_ branches are exactly where the code leaves the statement: with the three constants FALSE the
\* invariant holds with dev = "none" everywhere (Signum_fixed.cfg), with TRUE every miss carries its branch
Inv_DevsExplain == Satisfies(cse.cod, cse.dem) \/ cse.dev \in {"PrefixMatch", "NonSignalAttr"}
\* Dev_AttributeError changes the kind of refusal, never the verdict
Inv_AttrErrorHarmless == cse.dev = "AttributeError" => Satisfies(cse.cod, cse.dem)
\* "the same signal everywhere": the demanded number of a designation does not depend on the site
Inv_SameEverywhere == cse.dem.t \in {"num", "num_or_refuse"} =>
                         LET d == D(cse.cls, cse.kind, cse.case, cse.sig, cse.n, cse.junk)
                         IN  \A s \in Sites : Demanded(d, s).n = cse.dem.n /\ Demanded(d, s).t \in {"num", "num_or_refuse"}
Inv_Fixed == (~Dev_PrefixMatch /\ ~Dev_NonSignalAttr /\ ~Dev_AttributeError) =>
                 (Satisfies(cse.cod, cse.dem) /\ cse.dev = "none")

ASSUME "OUT_FILE" \in DOMAIN IOEnv =>
          JsonSerialize(IOEnv.OUT_FILE, [cases |-> SetToSeq(CaseSet), kmax |-> KMax,
                                         devs |-> [PrefixMatch |-> Dev_PrefixMatch,
                                                   NonSignalAttr |-> Dev_NonSignalAttr,
                                                   AttributeError |-> Dev_AttributeError]])
=============================================================================

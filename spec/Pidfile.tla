------------------------------ MODULE Pidfile ------------------------------
(***************************************************************************)
(* C08, last sentence (shape O, oracle):                                   *)
(*                                                                         *)
(*   "At startup it refuses to run when the pid file names another live    *)
(*    process, and takes over a stale, empty or garbled one."              *)
(*   (and, from the first sentence: the daemon "removes ... the pid file   *)
(*    it created")                                                         *)
(*                                                                         *)
(* Real code: circus/pidfile.py (Pidfile.create / validate / unlink), used *)
(* by circus/circusd.py main(): create(os.getpid()) before the arbiter     *)
(* starts (RuntimeError -> message, exit 1), unlink() in the finally block.*)
(*                                                                         *)
(* A case is an initial content class of the pid file and a sequence of    *)
(* operations of ONE daemon process (pid "own") on it.  For every step the *)
(* module defines                                                          *)
(*   dem : what the statement demands (result and file afterwards)         *)
(*   cod : what the code does (Dev_ branches TRUE = as the code behaves)   *)
(*   dev : the Dev_ branch that decides cod at this step, "none" if none   *)
(* TLC enumerates class x operation sequence (one initial state per case), *)
(* checks the sanity invariants and writes the cases to IOEnv.OUT_FILE;    *)
(* harness/check_pidfile.py renders the classes with real processes (a     *)
(* sleeping child, a reaped child, a process of another user) and runs the *)
(* steps on the real Pidfile class.                                        *)
(***************************************************************************)
EXTENDS Integers, Sequences, FiniteSets, TLC, Json, IOUtils, SequencesExt

CONSTANTS MaxOps,             \* length bound of the operation sequences
          Dev_HugeOverflow,   \* a number that does not fit a C pid_t (>= 2^31): os.kill raises OverflowError,
                              \* which validate() does not catch -> create() fails instead of taking over
          Dev_EpermOSError    \* a live process of another user: os.kill raises EPERM, validate() re-raises the
                              \* OSError (PermissionError) instead of create()'s RuntimeError; still a refusal

(***************************************************************************)
(* Content classes of the file before the daemon touches it.               *)
(***************************************************************************)
Classes == { "absent",
             "empty",            \* zero bytes
             "whitespace",       \* blanks / line breaks only
             "garbage",          \* text that is not a number ("abc", "12ab", "1 2", "12.0", two lines)
             "garbage_livepid",  \* not a number, though a live pid occurs in it ("<pid> x", "pid=<pid>")
             "own", "own_nl", "own_padded",          \* our pid: bare, "\n"-terminated, blanks around
             "live", "live_nl", "live_padded",      \* a live process that is not us (same user)
             "live_eperm",                          \* a live process we may not signal (another user's)
             "dead", "dead_nl", "dead_padded",      \* a pid whose process is gone (reaped)
             "zero", "negative",                    \* "0", "-<n>": no process has such a pid
             "big",                                 \* above pid_max, below 2^31: no such process
             "huge" }                               \* >= 2^31: cannot even be a pid

\* the file after our own create() wrote it: exactly "<own pid>\n"
Ours == "ours"
FileStates == Classes \cup {Ours}

\* what the content names
Names(f) == CASE f \in {"own", "own_nl", "own_padded", Ours}         -> "own"
              [] f \in {"live", "live_nl", "live_padded", "live_eperm"} -> "otherlive"
              [] f \in {"dead", "dead_nl", "dead_padded", "big"}     -> "stale"
              [] f = "absent"                                         -> "nothing"
              [] OTHER                                                -> "garbled"  \* empty whitespace garbage* zero negative huge

Ops == {"create", "unlink"}

(***************************************************************************)
(* Demands.  res: "ok" | "refuse" | "any";  file: "own" (names exactly our *)
(* pid) | "absent" | "any"                                                 *)
(***************************************************************************)
Demanded(op, f, created) ==
  IF op = "create"
    THEN IF Names(f) = "otherlive" THEN [res |-> "refuse", file |-> "any"]
                                   ELSE [res |-> "ok", file |-> "own"]
    \* unlink: the statement speaks only of the pid file the daemon created
    ELSE IF created /\ Names(f) = "own" THEN [res |-> "ok", file |-> "absent"]
                                        ELSE [res |-> "any", file |-> "any"]

(***************************************************************************)
(* The code.  res: "ok" or the exception class; file: the state afterwards.*)
(***************************************************************************)
\* int(f.read() or 0) in validate()/unlink(): does the content parse as an integer?
ParsesAsInt(f) == f \notin {"absent", "whitespace", "garbage", "garbage_livepid"}   \* "" -> 0

Create(f) ==
  CASE f \in {"live", "live_nl", "live_padded"} -> [res |-> "RuntimeError", file |-> f]
    [] f = "live_eperm" -> [res |-> IF Dev_EpermOSError THEN "PermissionError" ELSE "RuntimeError", file |-> f]
    [] f = "huge"       -> IF Dev_HugeOverflow THEN [res |-> "OverflowError", file |-> f]
                                               ELSE [res |-> "ok", file |-> Ours]
    [] Names(f) = "own" -> [res |-> "ok", file |-> f]        \* `if oldpid == pid: return` -- left as it is
    [] OTHER            -> [res |-> "ok", file |-> Ours]     \* O_TRUNC, "<pid>\n"

\* unlink() swallows every exception; removes the file iff it reads as our pid, or does not read as a number
Unlink(f) ==
  CASE f = "absent"        -> [res |-> "ok", file |-> "absent"]
    [] Names(f) = "own"    -> [res |-> "ok", file |-> "absent"]
    [] ~ParsesAsInt(f)     -> [res |-> "ok", file |-> "absent"]   \* ValueError -> pid1 = self.pid
    [] OTHER               -> [res |-> "ok", file |-> f]          \* another number (empty reads as 0): kept

AsCoded(op, f) == IF op = "create" THEN Create(f) ELSE Unlink(f)

DevOf(op, f) == CASE op = "create" /\ f = "huge" /\ Dev_HugeOverflow       -> "HugeOverflow"
                  [] op = "create" /\ f = "live_eperm" /\ Dev_EpermOSError -> "EpermOSError"
                  [] OTHER -> "none"

SatisfiesRes(res, d) == CASE d = "ok" -> res = "ok" [] d = "refuse" -> res # "ok" [] OTHER -> TRUE
SatisfiesFile(f, d)  == CASE d = "own" -> Names(f) = "own" [] d = "absent" -> f = "absent" [] OTHER -> TRUE
Satisfies(cod, dem)  == SatisfiesRes(cod.res, dem.res) /\ SatisfiesFile(cod.file, dem.file)

(***************************************************************************)
(* Running a sequence of operations from a content class.                  *)
(***************************************************************************)
RECURSIVE Steps(_, _, _)
Steps(f, created, ops) ==
  IF ops = <<>> THEN <<>>
  ELSE LET op  == Head(ops)
           cod == AsCoded(op, f)
           st  == [op |-> op, before |-> f, dem |-> Demanded(op, f, created), cod |-> cod, dev |-> DevOf(op, f)]
           cr  == IF op = "create" THEN cod.res = "ok" ELSE created
       IN  <<st>> \o Steps(cod.file, cr, Tail(ops))

OpSeqs == UNION {[1..n -> Ops] : n \in 1..MaxOps}
CaseSet == {[cls |-> c, steps |-> Steps(c, FALSE, s)] : c \in Classes, s \in OpSeqs}

VARIABLE cse
Init == cse \in CaseSet
Next == UNCHANGED cse

StepsOf(c) == {c.steps[i] : i \in 1..Len(c.steps)}

\* the statement, read off the model: the first create is refused exactly for another live process ...
Inv_RefuseIffLive == LET s == cse.steps[1] IN
                     s.op = "create" => ((s.dem.res = "refuse") <=> (Names(cse.cls) = "otherlive"))
\* ... and the Dev_ branches are exactly where the code leaves the statement
Inv_DevsExplain == \A s \in StepsOf(cse) : Satisfies(s.cod, s.dem) \/ s.dev = "HugeOverflow"
Inv_EpermHarmless == \A s \in StepsOf(cse) : s.dev = "EpermOSError" => Satisfies(s.cod, s.dem)
Inv_Fixed == (~Dev_HugeOverflow /\ ~Dev_EpermOSError) =>
                \A s \in StepsOf(cse) : Satisfies(s.cod, s.dem) /\ s.dev = "none"
\* create is idempotent for the process that holds the file, and create+unlink leaves nothing behind
Inv_CreateUnlink == \A i \in 1..(Len(cse.steps) - 1) :
                       (cse.steps[i].op = "create" /\ cse.steps[i].cod.res = "ok" /\ cse.steps[i + 1].op = "unlink")
                          => cse.steps[i + 1].cod.file = "absent"

ASSUME "OUT_FILE" \in DOMAIN IOEnv =>
          JsonSerialize(IOEnv.OUT_FILE, [cases |-> SetToSeq(CaseSet),
                                         devs |-> [HugeOverflow |-> Dev_HugeOverflow,
                                                   EpermOSError |-> Dev_EpermOSError]])
=============================================================================

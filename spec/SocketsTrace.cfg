CONSTANTS
  MaxEvents = 64
  MaxProcs = 3
  Fault_CloseFds = FALSE
  Fault_KeepFds = FALSE
  Fault_KeepFdsStdin = FALSE
  Fault_NoInherit = FALSE
  Fault_Rebind = FALSE
INIT TInit
NEXT TNext
CHECK_DEADLOCK FALSE
INVARIANT Expect

\* C12, three watcher names; Dev_ branches TRUE (the code as it is)
CONSTANTS
  NameSeq <- three_NameSeq
  MaxNp = 3
  CmdVers <- mc_CmdVers
  EnvVers <- mc_EnvVers
  OptVals <- mc_OptVals
  InitFiles <- three_InitFiles
  AddRecs <- mc_AddRecs
  MaxEdits = 4
  Dev_StaleCfgSnapshot = TRUE
  Dev_DiffIgnoresAddedKeys = TRUE
  EmitHist = FALSE
INIT Init
NEXT Next
CONSTRAINT Emit
CHECK_DEADLOCK FALSE
INVARIANT Inv_Type
INVARIANT Inv_SameExplained
INVARIANT Inv_DeltaExplained
INVARIANT C12_Keep
INVARIANT C12_Idem
INVARIANT Inv_Fixed

------------------------------ MODULE MC_core ------------------------------
(* Constant sets for the model-checking configurations of Core (one .cfg per property group). *)
EXTENDS MCCore

W0(nm, np, G, Wd) == [n |-> nm, ln |-> nm, np |-> np, G |-> G, W |-> Wd, sing |-> FALSE, resp |-> TRUE, auto |-> TRUE, prio |-> 0,
                      ssig |-> 15, sch |-> FALSE, hup |-> FALSE, hooks |-> <<>>, retry |-> 2, ver |-> 1]
Rq(cmd, nm, waiting) == [cmd |-> cmd, name |-> nm, lname |-> nm, hasname |-> nm # "", mid |-> "", waiting |-> waiting,
            cast |-> FALSE, pid |-> -1, signum |-> -1, children |-> FALSE, recursive |-> FALSE, childpid |-> -1,
            nb |-> 1, G |-> -1, nostop |-> FALSE, graceful |-> TRUE, sequential |-> FALSE, raw |-> FALSE,
            start |-> FALSE, addnp |-> 1, addG |-> 1, addW |-> 0, addsing |-> FALSE, nopts |-> 1, pattern |-> FALSE,
            opts |-> <<>>, matches |-> <<>>, file |-> <<>>, plan |-> [chg |-> <<>>, del |-> <<>>, add |-> <<>>],
            rovalid |-> TRUE, adduid |-> "none", arbchg |-> FALSE]
D(cd, wg, ws) == [cd |-> cd, wg |-> wg, ws |-> ws, obeyset |-> {TRUE}]
Stubborn(c) == [c EXCEPT !.obeyset = {FALSE}]
Mixed(c) == [c EXCEPT !.obeyset = {TRUE, FALSE}]

\* ---- C01 / C13: count convergence, fresh generations, fixpoint
c01_Configs == { D(3, 0, <<W0("w1", np, G, Wd)>>) : np \in {1, 2}, G \in {0, 1}, Wd \in {0, 1} }
                \cup { D(3, 0, <<[W0("w1", 1, 1, 0) EXCEPT !.sing = TRUE]>>) }
c01_Requests == { Rq("incr", "w1", TRUE), [Rq("incr", "w1", FALSE) EXCEPT !.nb = 2], Rq("decr", "w1", TRUE),
                  [Rq("set", "w1", FALSE) EXCEPT !.nb = 0], [Rq("set", "w1", TRUE) EXCEPT !.nb = 2],
                  Rq("restart", "w1", TRUE), Rq("reload", "w1", TRUE),
                  [Rq("reload", "w1", FALSE) EXCEPT !.sequential = TRUE],
                  [Rq("reload", "w1", TRUE) EXCEPT !.graceful = FALSE], Rq("kill", "w1", FALSE) }

\* ---- C02 / C05 / C10: stop with overlapping kill, deaths at every boundary of the stop sequence
c02_Configs == { D(3, 0, <<W0("w1", np, G, 0)>>) : np \in {1, 2}, G \in {0, 2} }
                \cup { Stubborn(D(3, 0, <<W0("w1", 2, 1, 0)>>)), Mixed(D(3, 0, <<W0("w1", 2, 2, 0)>>)) }
c02_Requests == { Rq("stop", "w1", TRUE), Rq("kill", "w1", FALSE), [Rq("kill", "w1", TRUE) EXCEPT !.G = 2],
                  Rq("incr", "w1", FALSE), Rq("decr", "w1", FALSE), [Rq("set", "w1", FALSE) EXCEPT !.nb = 2],
                  Rq("restart", "w1", FALSE), Rq("start", "w1", TRUE), Rq("status", "w1", FALSE),
                  Rq("quit", "", FALSE) }

c01a_Configs == { D(3, 0, <<W0("w1", 2, 1, 1)>>) }
c02a_Configs == { Mixed(D(3, 0, <<W0("w1", 2, 1, 0)>>)) }

\* ---- C03: graceful termination: stop signal, grace period (in polls), children
Wsch(np, G) == [W0("w1", np, G, 0) EXCEPT !.sch = TRUE]
Wsch2(nm, np, G) == [W0(nm, np, G, 0) EXCEPT !.sch = TRUE]
c03_Configs == { Mixed(D(4, 0, <<Wsch(1, G)>>)) : G \in {0, 1, 2} } \cup { Mixed(D(4, 0, <<W0("w1", 1, G, 0)>>)) : G \in {0, 2} }
                \cup { Mixed(D(4, 0, <<[W0("w1", 1, 1, 0) EXCEPT !.ssig = 2]>>)) }
c03_Requests == { Rq("stop", "w1", TRUE), [Rq("kill", "w1", FALSE) EXCEPT !.G = 0], [Rq("kill", "w1", TRUE) EXCEPT !.G = 2],
                  [Rq("kill", "w1", FALSE) EXCEPT !.signum = 3], Rq("decr", "w1", FALSE), Rq("restart", "w1", FALSE),
                  [Rq("reload", "w1", FALSE) EXCEPT !.sequential = TRUE], [Rq("signal", "w1", FALSE) EXCEPT !.signum = 9] }

\* ---- C04 / C14: hooks, spawn failures, two watchers
H(h, o, ig) == [h |-> h, o |-> o, ig |-> ig]
Wh(nm, np, hooks) == [W0(nm, np, 1, 0) EXCEPT !.hooks = hooks]
GateHookCfgs == { <<H(h, o, ig)>> : h \in {"before_start", "before_spawn", "after_spawn", "after_start"},
                                    o \in {"false", "raise"}, ig \in BOOLEAN }
c14_Configs == { Mixed(D(4, 0, <<Wh("w1", 2, hs)>>)) : hs \in GateHookCfgs }
               \cup { Mixed(D(4, 0, <<Wh("w1", 1, <<H(h, o, FALSE)>>)>>)) :
                        h \in {"before_stop", "after_stop", "before_signal", "after_signal"}, o \in {"false", "raise"} }
c14_Requests == { Rq("start", "w1", TRUE), Rq("stop", "w1", TRUE), Rq("restart", "w1", TRUE), Rq("kill", "w1", FALSE),
                  [Rq("signal", "w1", FALSE) EXCEPT !.signum = 1], [Rq("signal", "w1", FALSE) EXCEPT !.signum = 9] }
c04_Configs == { D(4, 0, <<W0("w1", 1, 1, 0), W0("w2", 2, 0, 0)>>),
                 Mixed(D(4, 0, <<Wh("w1", 2, <<H("after_spawn", "false", FALSE)>>)>>)),
                 D(4, 0, <<Wh("w1", 2, <<H("before_spawn", "false", FALSE)>>), W0("w2", 1, 1, 0)>>) }
c04_Requests == { Rq("start", "w1", TRUE), Rq("stop", "w1", FALSE), Rq("incr", "w1", FALSE), Rq("decr", "w2", FALSE),
                  Rq("kill", "w2", FALSE), Rq("stop", "", FALSE), Rq("start", "", FALSE) }
c04_Faults == { <<>>, <<"OSError">>, <<"OSError", "OSError">>, <<"ok", "OSError", "OSError", "OSError">> }

\* ---- C05 / C10: overlapping requests, stubborn workers
c05_Configs == { Stubborn(D(3, 0, <<W0("w1", 2, 2, 0)>>)), Mixed(D(3, 0, <<W0("w1", 1, 1, 1)>>)) }
c05_Requests == { Rq("kill", "w1", FALSE), [Rq("kill", "w1", TRUE) EXCEPT !.G = 2], Rq("stop", "w1", TRUE),
                  Rq("restart", "w1", TRUE), [Rq("reload", "w1", TRUE) EXCEPT !.sequential = TRUE],
                  Rq("start", "w1", TRUE), Rq("incr", "w1", FALSE), Rq("status", "w1", FALSE), Rq("quit", "", FALSE) }
c10_Configs == { D(3, 0, <<W0("w1", 1, 1, 1)>>), D(3, 0, <<Wh("w1", 1, <<H("before_start", "raise", FALSE)>>)>>),
                 D(3, 0, <<[W0("w1", 1, 1, 0) EXCEPT !.sing = TRUE]>>) }
c10_Requests == { Rq("start", "w1", TRUE), Rq("stop", "w1", FALSE), Rq("restart", "w1", TRUE), Rq("reload", "w1", FALSE),
                  Rq("incr", "w1", TRUE), Rq("decr", "w1", FALSE), [Rq("set", "w1", TRUE) EXCEPT !.nb = 2],
                  \* several options in one set; an option that asks for a reload afterwards
                  [Rq("set", "w1", TRUE) EXCEPT !.nopts = 2, !.opts = <<[k |-> "G", v |-> 0], [k |-> "np", v |-> 2]>>],
                  [Rq("set", "w1", FALSE) EXCEPT !.opts = <<[k |-> "act1", v |-> 0]>>],
                  Rq("quit", "", FALSE), Rq("stop", "", FALSE), Rq("reload", "", FALSE) }

\* ---- C09: events vs the live set; exit statuses and signals
c09_Configs == { D(3, 0, <<W0("w1", 2, 1, 0)>>), Mixed(D(3, 0, <<W0("w1", 1, 0, 0)>>)) }
c09_Requests == { Rq("incr", "w1", FALSE), Rq("decr", "w1", FALSE), [Rq("set", "w1", FALSE) EXCEPT !.nb = 1],
                  Rq("reload", "w1", FALSE), Rq("kill", "w1", FALSE), Rq("stop", "w1", FALSE), Rq("start", "w1", FALSE) }
st_all == {0, 256, 65280, 15, 9, 11}

\* ---- C18: confinement of signal / kill requests (two watchers, children)
c18_Configs == { D(4, 0, <<W0("w1", 2, 1, 0), Wsch2("w2", 1, 1)>>) }
c18_Requests == { [Rq("signal", "w1", FALSE) EXCEPT !.signum = 1], [Rq("signal", "w1", FALSE) EXCEPT !.signum = 15, !.pid = 1],
                  [Rq("signal", "w1", FALSE) EXCEPT !.signum = 15, !.pid = 3], [Rq("kill", "w1", FALSE) EXCEPT !.pid = 2],
                  [Rq("kill", "w1", FALSE) EXCEPT !.pid = 3], Rq("kill", "w2", FALSE),
                  [Rq("signal", "w2", FALSE) EXCEPT !.signum = 9, !.pid = 1],
                  \* the children of the workers (one fork: pid 4), all descendants, one child pid, a child that is not one
                  [Rq("signal", "w1", FALSE) EXCEPT !.signum = 15, !.children = TRUE],
                  [Rq("signal", "w1", FALSE) EXCEPT !.signum = 15, !.recursive = TRUE, !.pid = 1],
                  [Rq("signal", "w1", FALSE) EXCEPT !.signum = 1, !.pid = 1, !.childpid = 4],
                  [Rq("signal", "w2", FALSE) EXCEPT !.signum = 1, !.pid = 3, !.childpid = 1],
                  [Rq("signal", "w1", FALSE) EXCEPT !.signum = 1, !.childpid = 4] }

\* ---- C19: priority order and pacing at start
Wp(nm, np, Wd, prio, auto) == [W0(nm, np, 0, Wd) EXCEPT !.prio = prio, !.auto = auto]
c19_Configs == { D(8, wg, <<Wp("w1", 1, 0, p1, TRUE), Wp("w2", 2, w2, p2, TRUE), Wp("w3", 1, 0, 0, a3)>>) :
                   wg \in {0, 1}, p1 \in {0, 1}, p2 \in {0, 1}, w2 \in {0, 2}, a3 \in BOOLEAN }
RqP(cmd, pat, ms, waiting) == [Rq(cmd, pat, waiting) EXCEPT !.pattern = TRUE, !.matches = ms]
c19_Requests == { Rq("restart", "w2", FALSE), Rq("stop", "", TRUE), Rq("start", "", TRUE),
                  \* name patterns: several watchers through the arbiter-level operation, one through the watcher's
                  RqP("restart", "w*", <<"w1", "w2", "w3">>, TRUE), RqP("stop", "w[12]", <<"w1", "w2">>, FALSE),
                  RqP("start", "w[12]", <<"w1", "w2">>, TRUE), RqP("restart", "w2*", <<"w2">>, FALSE) }

\* ---- C08: shutdown at every moment
c08_Configs == { Mixed(D(3, 0, <<W0("w1", 1, 1, 1), W0("w2", 1, 0, 0)>>)) }
c08_Requests == { Rq("quit", "", TRUE), Rq("quit", "", FALSE), Rq("stop", "w1", FALSE), Rq("restart", "w1", FALSE) }

\* ---- smaller variants for the quick tier
c02q_Configs == { D(3, 0, <<W0("w1", 2, 2, 0)>>), Stubborn(D(3, 0, <<W0("w1", 2, 1, 0)>>)), Mixed(D(3, 0, <<W0("w1", 1, 0, 0)>>)) }
c03q_Configs == { Mixed(D(4, 0, <<Wsch(1, 1)>>)), Mixed(D(4, 0, <<W0("w1", 1, 2, 0)>>)), Mixed(D(4, 0, <<W0("w1", 1, 0, 0)>>)) }
c05q_Requests == { Rq("kill", "w1", FALSE), Rq("stop", "w1", TRUE), [Rq("reload", "w1", TRUE) EXCEPT !.sequential = TRUE],
                   Rq("start", "w1", TRUE), Rq("status", "w1", FALSE) }
c05q_Configs == { Stubborn(D(3, 0, <<W0("w1", 2, 2, 0)>>)) }
c19q_Configs == { D(8, wg, <<Wp("w1", 1, 0, p1, TRUE), Wp("w2", 2, 2, 1, TRUE), Wp("w3", 1, 0, 0, a3)>>) :
                   wg \in {0, 1}, p1 \in {0, 1}, a3 \in BOOLEAN }
st_three == {0, 65280, 9}

\* ---- C15: the watcher directory under add / rm with case variants and the empty name
RqN(cmd, nm, lnm, waiting) == [Rq(cmd, lnm, waiting) EXCEPT !.name = nm, !.hasname = TRUE]
c15_Configs == { D(4, 0, <<W0("a", 1, 1, 0)>>), D(4, 0, <<W0("a", 1, 0, 0), W0("b", 0, 0, 0)>>) }
c15_Requests == { RqN("add", "b", "b", FALSE), [RqN("add", "A", "a", FALSE) EXCEPT !.start = TRUE],
                  [RqN("add", "Ab", "ab", FALSE) EXCEPT !.start = TRUE, !.addnp = 2],
                  RqN("add", "", "", FALSE), [RqN("add", "", "", FALSE) EXCEPT !.start = TRUE],
                  RqN("rm", "A", "a", TRUE), [RqN("rm", "a", "a", FALSE) EXCEPT !.nostop = TRUE], RqN("rm", "aB", "ab", FALSE),
                  RqN("stop", "A", "a", TRUE), RqN("start", "AB", "ab", FALSE), RqN("status", "B", "b", FALSE) }

\* ---- C12 / C15 / C01: reloadconfig (the daemon booted on <<a, b>>; each request carries the file as it is now)
FW(nm, np, ver) == [n |-> nm, ln |-> nm, np |-> np, ver |-> ver, G |-> 1, W |-> 0, sing |-> FALSE, prio |-> 0, auto |-> TRUE,
                    resp |-> TRUE, ssig |-> 15, sch |-> FALSE, hup |-> FALSE, retry |-> 2]
RqF(file, waiting) == [Rq("reloadconfig", "", waiting) EXCEPT !.file = file]
c12_Configs == { D(4, 0, <<W0("a", 1, 1, 0), W0("b", 2, 1, 0)>>), D(4, 1, <<W0("a", 2, 1, 0), W0("b", 1, 1, 0)>>) }
c12_Requests == { RqF(<<FW("a", 1, 1), FW("b", 2, 1)>>, TRUE),                      \* (the first configuration, unchanged)
                  RqF(<<FW("a", 2, 1), FW("b", 1, 1)>>, FALSE),                     \* numprocesses only
                  RqF(<<FW("a", 1, 2), FW("b", 2, 1)>>, TRUE),                      \* another key of a
                  RqF(<<FW("b", 2, 1)>>, FALSE),                                    \* a removed
                  RqF(<<FW("a", 1, 1), FW("b", 2, 1), FW("c", 1, 1)>>, TRUE),       \* c added
                  RqF(<<FW("a", 3, 2), FW("c", 1, 1)>>, FALSE),                     \* all at once
                  Rq("status", "b", FALSE), Rq("list", "", FALSE), Rq("numwatchers", "", FALSE) }

\* ---- C02 / C10 with on_demand watchers: socket events start them (and only them), a stopped watcher stays stopped
Wod(nm, np) == W0(nm, np, 1, 0) @@ [od |-> TRUE]
c02od_Configs == { D(3, 0, <<Wod("od", 1), W0("w2", 1, 1, 0)>>), D(3, 0, <<[W0("w2", 1, 0, 0) EXCEPT !.prio = 1], Wod("od", 2)>>) }
c02od_Requests == { Rq("stop", "w2", TRUE), Rq("stop", "od", FALSE), Rq("start", "od", FALSE), Rq("status", "w2", FALSE) }

\* ---- random deep exploration (tlc -simulate): everything at once, budgets far beyond what is exhaustible
deep_Configs == c04_Configs \cup c18_Configs \cup c08_Configs \cup c10_Configs \cup c05_Configs \cup c03_Configs \cup c02a_Configs
deep_Requests == c01_Requests \cup c02_Requests \cup c03_Requests \cup c04_Requests \cup c05_Requests \cup c09_Requests
                 \cup c10_Requests \cup c14_Requests \cup c18_Requests \cup c08_Requests

\* ---- C03 / C01 with max_age: workers expire in the periodic check (0.8 s; checks every 0.4 s)
Wage(nm, np, G, age) == W0(nm, np, G, 0) @@ [mage |-> age]
c03age_Configs == { Mixed(D(4, 0, <<Wage("w1", 2, 1, 8)>>)), Mixed(D(4, 0, <<Wage("w1", 1, 2, 8), W0("w2", 1, 1, 0)>>)) }
c03age_Requests == { Rq("stop", "w1", TRUE), [Rq("kill", "w1", FALSE) EXCEPT !.G = 0], Rq("decr", "w1", FALSE),
                     Rq("restart", "w1", FALSE), Rq("status", "w1", FALSE) }

st_one == {256}
st_exit == {0, 256, 65280}
st_sig  == {15, 9, 11}
one == {TRUE}
both == {TRUE, FALSE}
nofault == {<<>>}
=============================================================================

------------------------------ MODULE MC_core ------------------------------
(* Constant sets for the model-checking configurations of Core (one .cfg per property group). *)
EXTENDS MCCore

W0(nm, np, G, Wd) == [n |-> nm, np |-> np, G |-> G, W |-> Wd, sing |-> FALSE, resp |-> TRUE, auto |-> TRUE, prio |-> 0,
                      ssig |-> 15, sch |-> FALSE, hup |-> FALSE, hooks |-> <<>>, retry |-> 2]
Rq(cmd, nm, waiting) == [cmd |-> cmd, name |-> nm, lname |-> nm, hasname |-> nm # "", mid |-> "", waiting |-> waiting,
            cast |-> FALSE, pid |-> -1, signum |-> -1, children |-> FALSE, recursive |-> FALSE, childpid |-> -1,
            nb |-> 1, G |-> -1, nostop |-> FALSE, graceful |-> TRUE, sequential |-> FALSE, raw |-> FALSE]
D(cd, wg, ws) == [cd |-> cd, wg |-> wg, ws |-> ws, obeyset |-> {TRUE}]
Stubborn(c) == [c EXCEPT !.obeyset = {FALSE}]
Mixed(c) == [c EXCEPT !.obeyset = {TRUE, FALSE}]

\* ---- C01 / C13: count convergence, fresh generations, fixpoint
c01_Configs == { D(3, 0, <<W0("w1", np, G, Wd)>>) : np \in {1, 2}, G \in {0, 1}, Wd \in {0, 1} }
                \cup { D(3, 0, <<[W0("w1", 1, 1, 0) EXCEPT !.sing = TRUE]>>) }
c01_Requests == { Rq("incr", "w1", TRUE), [Rq("incr", "w1", FALSE) EXCEPT !.nb = 2], Rq("decr", "w1", TRUE),
                  [Rq("set", "w1", FALSE) EXCEPT !.nb = 0], [Rq("set", "w1", TRUE) EXCEPT !.nb = 2],
                  Rq("restart", "w1", TRUE), Rq("reload", "w1", TRUE),
                  [Rq("reload", "w1", FALSE) EXCEPT !.sequential = TRUE],
                  [Rq("reload", "w1", TRUE) EXCEPT !.graceful = FALSE], Rq("kill", "w1", FALSE) }

\* ---- C02 / C05 / C10: stop with overlapping kill, deaths at every boundary of the stop sequence
c02_Configs == { D(3, 0, <<W0("w1", np, G, 0)>>) : np \in {1, 2}, G \in {0, 2} }
                \cup { Stubborn(D(3, 0, <<W0("w1", 2, 1, 0)>>)), Mixed(D(3, 0, <<W0("w1", 2, 2, 0)>>)) }
c02_Requests == { Rq("stop", "w1", TRUE), Rq("kill", "w1", FALSE), [Rq("kill", "w1", TRUE) EXCEPT !.G = 2],
                  Rq("incr", "w1", FALSE), Rq("decr", "w1", FALSE), [Rq("set", "w1", FALSE) EXCEPT !.nb = 2],
                  Rq("restart", "w1", FALSE), Rq("start", "w1", TRUE), Rq("status", "w1", FALSE),
                  Rq("quit", "", FALSE) }

c01a_Configs == { D(3, 0, <<W0("w1", 2, 1, 1)>>) }
c02a_Configs == { Mixed(D(3, 0, <<W0("w1", 2, 1, 0)>>)) }
st_one == {256}
st_exit == {0, 256, 65280}
st_sig  == {15, 9, 11}
one == {TRUE}
both == {TRUE, FALSE}
nofault == {<<>>}
=============================================================================
